#!/usr/bin/env python3
"""Regenerates /verif/MANIFEST.json from the table below and validates it
(python3-vt tools/gen_manifest.py)."""
import json
import os
import sys

HERE = os.path.dirname(os.path.dirname(os.path.abspath(__file__)))

# property -> (engine, technique, level text, level note, design ref)
CHECKS = {
    "C05": (
        "E1-enum",
        "exhaustive small-scope enumeration of timestamp-set pairs on the real "
        "sync functions against a predicate oracle",
        "Every pair of non-empty subsets of an 8-slot (quick: 6-slot) timestamp "
        "grid x jitter x 4 max_diff (incl. exact hits) x 5 offsets x 2 epochs is "
        "executed on the real associate_trajectories / matching_time_indices and "
        "judged by a predicate written from the property (nearest counterpart, "
        "no pose twice, increasing order, copies, inputs untouched, error iff "
        "nothing matches). Complete within that scope; contested counterparts, "
        "ties and exact-threshold hits all occur thousands of times. " 
        "A third jitter of 2^-8 with thresholds 0, 2^-9, 2^-8, 0.25 decides tiny thresholds and max_diff = 0; exceptions other than SyncException are violations. " 
        "The very same trajectory object as both arguments (with every offset) is part of the space. " 
        "Offset 0.3 (not a binary fraction); 2200 x 2100 stamps (more than 2^22 pairs) incl. three phases of a dense short trajectory against a sparse long one.",
        "Trusted: numpy float64 arithmetic on multiples of 0.125 (exact), the "
        "predicate oracle in mc/checks/c05.py. Not covered: > 8 stamps, "
        "off-grid stamps other than the literal F3 witness.",
        "DESIGN.md 4/C05"),
    "C03": (
        "E1-enum",
        "exhaustive small-scope enumeration of point-set pairs on the real "
        "umeyama_alignment against Horn's quaternion method",
        "Every 3- and 4-point subset of the {-1,0,1}^3 grid and every 5-subset "
        "of the unit cube, plus structured larger sets, is paired with its "
        "image under every cube rotation x scale/translation alphabet, with "
        "mirror images (reflection branch), one-point noise and unrelated "
        "sets, with and without scale; all on-axis / coincident tuples up to 4 "
        "points must be refused. Each result is checked for properness, "
        "optimality against an independent closed form (Horn), reproduction of "
        "the generating map, equivariance and permutation invariance. " 
        "Determined cases are repeated with the point sets as int64 / float32 (exactly representable), as a strided view and as read-only arrays: same transformation. " 
        "Helices of 1025 / 1500 / 1700 points (thorough: 2000, 2049); unequal sizes with either set the longer one.",
        "Trusted: numpy eigh/SVD; Horn oracle in mc/refmodel/geom.py; "
        "condition-aware tolerances (eps*|coordinate|/spread). Not covered: "
        "point sets outside the enumerated grids.",
        "DESIGN.md 4/C03"),
    "C08": (
        "E2-hist",
        "explicit-state BFS over operation histories of live trajectory "
        "objects with a lock-step reference model",
        "All histories up to depth 4 (quick) / 5 (thorough) over 22 operations "
        "(reads of each view, left/right/propagating SE(3) and Sim(3) "
        "transformations, scale, reduce, downsample, motion filter, crop, four "
        "alignment modes, three projections, deepcopy) from four initial "
        "objects; after every transition every view, check() and the derived "
        "quantities are compared with the model; states are de-duplicated on "
        "content + hidden cache state, so every reachable combination of "
        "'which views were read before which write' is visited. " 
        "Initial objects also hold their matrices as one (n,4,4) array; the alphabet contains a left multiplication with the propagation switch on and calls that evo rejects (which must change nothing). " 
        "A single-pose trajectory and a two-pose path are initial objects; an object whose timestamps are not one per pose is a violation. " 
        "A further BFS (depth 3, thorough 4) with evo's logger enabled for DEBUG.",
        "Trusted: reference model in mc/checks/c08.py; state canonicalisation "
        "(content rounded to 1e-9 + set of existing caches). Not covered: "
        "histories longer than the depth bound, trajectories other than the "
        "4-pose grid fixture.",
        "DESIGN.md 4/C08"),
    "C13": (
        "E1-enum",
        "exhaustive enumeration of result lists on the real merge_results, "
        "and of evo_res file selections through the real CLI",
        "All lists of 1..3 results over 45+ result types (statistic values, "
        "array lengths incl. empty, both key insertion orders, missing/extra "
        "key), all chains of 4 (thorough: 6) over a reduced alphabet: mean of "
        "statistics, element-wise mean vs concatenation in input order, info "
        "of the first, identity for a single result, refusal of key "
        "mismatches, inputs bitwise unchanged, no aliasing. evo_res "
        "--save_table for every ordered selection of 1..3 result files x "
        "use_filenames x merge: CSV rows/labels/values, duplicate labels "
        "refused. " 
        "evo_res over six result files: three plain ones, a name with glob metacharacters next to the sibling it would match, a NaN statistic, a different statistic set. " 
        "merge_results also with arrays in other representations (int64 / float32 first or later, one array object under two keys, read-only). " 
        "Statistics may be 0 or negative; arrays may be 2-D (L x 4, 4 x 4). " 
        "Table files named .csv / .json / .tex / .txt / without extension. " 
        "Lists in which one result object occurs more than once.",
        "Trusted: the predicate in mc/checks/c13.py, csv parsing. Not covered: "
        "lists longer than the bound, result files other than the three APE "
        "fixtures.",
        "DESIGN.md 4/C13"),
    "C16": (
        "E2-hist",
        "purity table (bit-exact argument snapshots) + explicit-state BFS "
        "over derive/mutate histories of a heap of trajectory objects",
        "Part A: 40+ table entries covering every public computing, plotting "
        "and writing function x {path, trajectory} x both storage modes x "
        "{nothing cached, all cached}, with bit-exact snapshots of every "
        "argument object before/after. Part B: all histories up to depth 3 "
        "(thorough 4) of derive (copy, associate, 4 splits, merge, DataFrame "
        "round trip) and mutate (transform, scale, 2 projections, reduce, "
        "motion filter, 2 alignments, reads) operations on a heap of up to 3 "
        "objects; after every step every other object is bitwise unchanged "
        "and internally consistent; the state includes the buffer-sharing "
        "graph. " 
        "Heap objects also hold their matrices as one (n,4,4) array (views sharing one buffer; transitions are replayed, not deep-copied); writers are also given a result with NaN / inf statistics and info values. " 
        "A derive operation that builds a second object from the very pose list of the first; copy/deepcopy/pickle are table entries observed without deep copies; trajectories carry metadata dicts. " 
        "Table entries for the ROS1 bag writer (quaternions unit only to 1e-7) and save_df_as_table in both orientations. " 
        "Trajectories whose position / quaternion arrays are column-major. " 
        "The non-trajectory arguments of transform (SE(3)/Sim(3) matrix), reduce_to_ids (index containers with negative indices), scale and downsample are watched.",
        "Trusted: snapshots through deepcopy; np.shares_memory for the "
        "aliasing graph. Not covered: heaps > 3 objects, depth beyond bound.",
        "DESIGN.md 4/C16"),
    "C19": (
        "E3-vfs",
        "exhaustive crash-point / torn-write enumeration and exhaustive "
        "interleaving exploration of the real settings code on a virtual FS",
        "The real module body of settings.py and the real reset / set_config "
        "/ merge_json_union run as virtual processes (one thread each, baton "
        "scheduler) over an in-memory POSIX-like FS wrapped by Python's real "
        "buffering layers. Every primitive boundary and torn-write prefix of "
        "first start, upgrade, reset, subset reset, set and merge is a crash "
        "point followed by a fresh start; every interleaving of two "
        "concurrent processes (start/start on empty and outdated homes, "
        "set+start, reset+start; thorough: +kill, 3 starts) is explored with "
        "state-hash pruning. Invariant in every state: settings.json absent "
        "or complete JSON; no started process fails; finished processes see "
        "all default keys. " 
        "A fresh process is also started after every operation that completed (not only after a kill). " 
        "A killed long edit followed by an edit of a process with the same pid; an outdated file that also carries dropped keys. " 
        "time.sleep is a scheduling point with a coarse virtual clock, so lock-file polling loops are explored to their timeout.",
        "Trusted: the VFS model (atomic primitives, inode semantics, process "
        "kill loses user-space buffers); CPython refcount-driven flush of "
        "un-closed files. Not covered: power loss / block-level reordering, "
        "more than 3 processes.",
        "DESIGN.md 4/C19"),
    "C04": (
        "E1-enum",
        "exhaustive enumeration of grid trajectory pairs x alignment modes on "
        "the real align()/align_origin()/ape()/rpe()/evo_ape, oracle = Horn",
        "Every grid path of 3..5 (thorough 6) poses over a 5-step alphabet, "
        "paired with its image under generating similarities (scale 1e-2.."
        "1e2) with noise {none, one pose, unrelated}, x {rigid, similarity, "
        "scale-only, origin} x n in {-1,3..N} x both storage modes x cache "
        "states: poses moved by exactly the returned parameters, reference "
        "untouched, parameters = optimum of the first n pairs and independent "
        "of later poses, RMSE never worse / optimal, second alignment is the "
        "identity; recorded alignment matrix of ape()/rpe()/evo_ape/evo_rpe "
        "maps the unaligned estimate onto the stored one for 6 option "
        "combinations. " 
        "Also with both trajectories displaced by (4620.37, 54280.91, 310.55) (coordinates large against the extent). " 
        "One generator per path is repeated with evo's logger enabled for DEBUG (the state of every CLI run); the CLI part compares the recorded matrix with the reference model. " 
        "evo_traj alignment with --n_to_align over two files of different lengths in both orders (through C15's pipeline).",
        "Trusted: Horn oracle; tolerance 1e-9 x coordinate scale. Not covered: "
        "paths outside the step alphabet, > 6 poses.",
        "DESIGN.md 4/C04"),
    "C09": (
        "E1-enum",
        "exhaustive enumeration over a hard rotation alphabet (all elements, "
        "pairs, triples) on the real lie_algebra functions",
        "107 rotations (angles 1e-16..1e-3, pi-1e-12..pi, k*pi/8 about 5 axes, "
        "24 cube rotations, seed-dependent generic) x 5 translations (1e-6.."
        "1e9) x 7 scales (1e-4..1e4): exp/log/hat/vee inverses, angle in "
        "[0,pi] against an atan2 oracle incl. relative accuracy of tiny "
        "angles, SE(3)/Sim(3) inverses and scale recovery, membership of "
        "genuine elements, rejection of 12 near-miss classes and 4 bottom "
        "rows; all pairs: metric value, symmetry, zero only for equal, "
        "bi-invariance; all triples: triangle inequality. " 
        "Near misses include shears of either sign (5e-4..0.1) in all six off-diagonal positions on either side. " 
        "hat / vee against the definition; scales within 2e-6 and 1e-9 of 1. " 
        "Scales that are not round in any number of decimals (1e-4/3, 1e-2/7, 1e4/3).",
        "Trusted: numpy-only rotation oracle (mc/refmodel/geom.py). Not "
        "covered: rotations outside the alphabet; near-miss matrices between "
        "1e-9 and 1e-5 from the group (acceptance radius is not specified).",
        "DESIGN.md 4/C09"),
    "C15": (
        "E4-cli",
        "exhaustive (thorough) / pairwise-covering (quick) exploration of the "
        "evo_traj option lattice through the real parser and run(), oracle = "
        "reference pipeline + independent file parsers",
        "11-dimensional option lattice (files, downsample, motion filter, "
        "merge, t_offset, 7 sync/alignment modes, n_to_align, 43 "
        "transformation variants {left,right} x invert x propagate x "
        "{SE(3),Sim(3)} x {npy,txt,json}, projection, export format, "
        "t_max_diff) plus a KITTI/EuRoC lattice: every exported file is parsed "
        "by an independent parser and compared with the reference pipeline in "
        "the documented order; predicted refusals must be refusals; identity "
        "run must reproduce the input bit for bit. " 
        "Also with file names that contain the reference's file name as suffix / prefix, --propagate_transform with --transform_left, and a motion-filter threshold spanning several poses of the zig-zag fixture. " 
        "Stale export files of an earlier run exist before every run; EuRoC inputs also without the title line. " 
        "The two estimates in both orders with a down-sampling count between their sizes; epoch-sized timestamps x every use of the reference. " 
        "Negative time offset; n_to_align 3 and 7 (between the sizes of the two files) in both file orders.",
        "Trusted: reference pipeline (mc/refmodel/pipeline.py), Horn oracle, "
        "evo's own project() for the orientation of non-planar projections. "
        "Not covered: bag input/output, other fixtures.",
        "DESIGN.md 4/C15"),
    "C18": (
        "E2-hist",
        "explicit-state BFS over settings-edit histories on the real config "
        "functions + exhaustive option/option-pair enumeration through the "
        "real parsers for generate/-c equivalence",
        "Part A: all histories to depth 2 (thorough 3) over 79 edit operations "
        "(set with 11 value-token lists on 6 key kinds, unknown keys, "
        "multi-key sets, subset/all reset, hard/soft merge, upgrade with "
        "missing keys) with per-step invariants (key set, only named keys "
        "change, bool/list/number typing, reset/merge/upgrade semantics). "
        "Part B: every typed long option of the evo_ape/evo_rpe/evo_traj "
        "parsers x several numeric spellings, and ordered pairs of options: "
        "direct parsing vs -c generated.json; namespace differences are "
        "decided by executing both and comparing outputs. Part C: -c "
        "priority, per-run settings override, locked container. " 
        "Reset of every single key, adjacent pair and prefix-related pair from a file in which every key holds a user value; a set whose value tokens are all numeric must not raise. " 
        "generate cases include the same option given twice with different values. " 
        "A config holding null / false / 0 for an option that the command line sets; the effect of console_logging_format from -c on the run's output. " 
        "evo_config generate through its own command line, with argument lists that contain option names it might take for its own. " 
        "Every long spelling of every option; a generated key that no parser destination or setting reads while the option values differ is reported.",
        "Trusted: introspection of argparse actions; output comparison of "
        "result zips / exported files. Not covered: short options, triples of "
        "options.",
        "DESIGN.md 4/C18"),
    "C10": (
        "E1-enum",
        "exhaustive enumeration of pose sequences on exact grids on the real "
        "id_pairs_from_delta against predicate oracles",
        "All step sequences of 2..7 (thorough 8) poses with step lengths "
        "{0,1,2,3} and a second binary-fraction grid with delta < 1; all "
        "rotation-step sequences of 2..5 (6) poses over {0,pi/8,pi/4,pi/2,pi "
        "about z, pi/2 about x}; N 2..12 for frames; x consecutive/all-pairs "
        "x on-grid (exact hits), off-grid and unsatisfiable deltas x "
        "tolerances: index range, exact frame sets/chains, chain property, "
        "minimality of j, start bound, maximality, closest-within-tolerance, "
        "each eligible i once, exact angle band, empty <=> FilterException. " 
        "All-pairs path mode also with tolerances of 1.0 and above. " 
        "Path cases carry orientations (exact half turns, a quarter turn) that must not matter. " 
        "An RPE object re-parameterised between two evaluations (all ordered pairs of 7 parameter sets) selects like a fresh one.",
        "Trusted: predicates in mc/checks/c10.py; three-valued comparisons "
        "within 1e-9 for accumulated angles. Not covered: longer sequences, "
        "off-grid geometry.",
        "DESIGN.md 4/C10"),
    "C11": (
        "E1-enum",
        "exhaustive enumeration of small tagged trajectories on the real "
        "downsample / motion_filter / crop / split / merge",
        "downsample: all (count<=14, N<=count+2); motion filter: all sequences "
        "of <=4 (5) steps over 3 lengths x 3 rotations x 4x4 thresholds incl. "
        "0 and exact hits; crop: all (start,end) from stamps/None/between/"
        "outside/start>end; splits (time, distance, speed): all gap sequences "
        "x thresholds incl. exact hits (partition, cuts only at exceeding "
        "steps); merge: all assignments of 4 (5) time slots to 1..3 "
        "trajectories incl. equal stamps. Every pose carries a unique "
        "position/orientation/stamp so 'travel together' is decided per pose. " 
        "Every fourth tagged pose holds an exact half turn (quaternion w = 0), every fourth an exact quarter turn. " 
        "Clockwise rotation steps with a 150 deg threshold; evo_traj --downsample / --motion_filter over two files of different lengths in both orders.",
        "Trusted: predicates in mc/checks/c11.py. Not covered: > 14 poses, "
        "off-grid geometry.",
        "DESIGN.md 4/C11"),
    "C12": (
        "E1-enum",
        "exhaustive enumeration of error arrays, of unit-change paths (state "
        "machine over 10 units) and of ape()/rpe() assembly lattices",
        "Statistics of every array of length <=5 (6) over a 5-magnitude "
        "alphabet vs fsum definitions and the stated inequalities; every "
        "unit-change path of length <=3 over 10 units from each relation's "
        "unit: exact factors, path independence, refusals leave values+unit "
        "bitwise untouched, statistics/title/label re-checked after every "
        "step; ape()/rpe() results over relation x unit x delta unit x delta "
        "x all_pairs x pairs_from_reference x timed: one companion entry per "
        "value referring to the right pose, stored trajectories = processed "
        "ones ([0]+end poses for RPE, zero-distance pairs skipped "
        "consistently), values = definition x factor. " 
        "Every assembly case also with an exact copy of the reference as estimate (all errors exactly zero). " 
        "rpe() also with support_loop=True. " 
        "evo_ape / evo_rpe with plot options (--save_plot, --plot_colormap_max_percentile, ...) save the same result bit for bit as without them.",
        "Trusted: reference definitions in mc/checks/c12.py; pair selection "
        "taken from evo's id_pairs_from_delta (decided by C10).",
        "DESIGN.md 4/C12"),
    "C14": (
        "E1-enum",
        "exhaustive enumeration of planes x pose alphabets x constructor x "
        "every subset of views read beforehand on the real project()",
        "372 planar headings per plane (1-degree grid + knife-edge neighbours "
        "of 0, +-90, 180), all 4096 Euler triples on a pi/8 grid (gimbal "
        "lock), 107 hard rotations x hard positions: zeroed out-of-plane "
        "coordinate, exact in-plane coordinates, valid pose, pure rotation "
        "about the normal, views agree, stamps/count/order unchanged, planar "
        "poses unchanged, second projection refused without effect. The xz "
        "heading defect is a listed known finding (K1), matched only on its "
        "exact mapping. " 
        "Also after project() calls rejected for their argument, with matrices held as one (n,4,4) array, and through ape()/rpe() with project_to_plane on equal-but-distinct trajectories. " 
        "evo_traj --project_to_plane together with association / alignment / merge is judged through C15's pipeline. " 
        "ape()/rpe() with project_to_plane on poses that already lie in the plane, also under non-default euler_angle_sequence settings; two objects given one metadata dict; metadata replaced / cleared after a projection. " 
        "evo_traj projection also together with transformations that have an out-of-plane part. " 
        "A reference that was projected by an earlier ape()/rpe() call is refused by the next one.",
        "Trusted: numpy rotation oracle. Not covered: rotations outside the "
        "alphabets.",
        "DESIGN.md 4/C14"),
    "C01": (
        "E4-cli",
        "exhaustive pose-pair / sequence enumeration on the real metrics.APE "
        "and exhaustive (thorough) option-lattice exploration of evo_ape "
        "against a reference pipeline",
        "Metric core: all 107^2 ordered rotation pairs of the hard alphabet "
        "(angles 1e-16..1e-3 and pi-1e-12..pi, positions to 5.4e6 m) x 6 "
        "relations x both storage modes, value k against pair k; all "
        "sequences of length <=3 (4) over 6 poses x 4 perturbations: order, "
        "zero, swap symmetry, common rigid motion, unequal lengths and the 7th "
        "relation refused. evo_ape: 11-dimensional lattice (relation, 6 "
        "alignment modes, n_to_align, downsample, motion filter, t_max_diff, "
        "t_offset, crop, projection, unit change, TUM/KITTI/EuRoC) - full "
        "product in the thorough tier, pairwise + 9216-point sub-product in "
        "the quick tier - error_array and timestamps from the saved zip vs "
        "the reference pipeline incl. predicted refusals. " 
        "Plus geometry variants of the estimate file (mirrored copy, both trajectories displaced by 5e4 m, the reference file given twice) x relation x alignment x n_to_align; an exception escaping from evo is a violation. " 
        "A burst variant (two estimate poses contending for one reference pose): the contested association is adopted from evo's primitive after it passed C05's predicate. " 
        "The estimate file also without a line end after its last row and with CRLF line ends. " 
        "One-sided time ranges (--t_start or --t_end alone) and a negative offset.",
        "Trusted: reference pipeline and definitions (mc/refmodel, "
        "mc/checks/ape_rpe_common.py), Horn oracle, evo's project() for the "
        "orientation of non-planar projections, one 8-pose fixture.",
        "DESIGN.md 4/C01"),
    "C02": (
        "E4-cli",
        "exhaustive motion-sequence enumeration on the real metrics.RPE and "
        "option-lattice exploration of evo_rpe against a reference pipeline",
        "Estimate = every sequence of <=3 (4) steps over 8 motions, reference "
        "= fixed sequences with zero-length steps, x 8 (unit, delta) x "
        "all_pairs x pairs_from_reference x 7 relations: one value per "
        "selected pair in order, pair end indices, zero reference distances "
        "skipped consistently, unequal lengths refused; drift independence "
        "under different rigid motions; zero for identical relative motions. "
        "evo_rpe lattice (14 dimensions; pairwise + full sub-products) vs the "
        "reference pipeline. " 
        "Plus geometry variants of the estimate file (mirrored copy, displaced by 5e4 m, the reference given twice) x relation x delta x pairing x alignment. " 
        "Quarter-turn deltas (90 deg, pi/2) in all-pairs mode over references that keep turning past 180/360 deg; in the evo_rpe lattice the selected pairs are judged by C10's predicate oracle. " 
        "Chains of 257 / 300 / 514 poses (thorough: to 1300) x relations x 3 deltas. " 
        "One-sided time ranges and a negative offset in the evo_rpe lattice.",
        "Trusted: as C01; the pair selection itself is evo's "
        "id_pairs_from_delta (decided by C10) applied to the trajectory the "
        "property names.",
        "DESIGN.md 4/C02"),
    "C06": (
        "E1-enum",
        "exhaustive enumeration of writer x reader variants with a float "
        "alphabet rotated through every numeric slot, bit-exact comparison",
        "~760 float values needing up to 17 digits (9 mantissa patterns x 40 "
        "binary exponents x sign, +-0.0, 1e+-300, epoch stamps) pass through "
        "every column slot (Latin-square rotation) of TUM and KITTI files for "
        "all {str, Path, handle}^2 writer/reader variants x storage modes x "
        "sizes {1,2,3,|F| (,1e5)}, of result archives (with/without embedded "
        "trajectories, unicode info, empty / 2-D arrays), of DataFrame "
        "conversions (explicit types), and a ROS1 bag (positions/quaternions "
        "exact, frame id, stamps within 1 ns). " 
        "Result info strings run through an alphabet (undecodable file-name bytes as lone surrogates, control characters, astral plane, empty, long). " 
        "Every alphabet value also as the first field of the first row (TUM, KITTI); bag export with three trajectories in one bag under their own topics. " 
        "Matrices in column-major memory layout; the exported trajectory carries another frame id in its metadata than the one it is exported with.",
        "Trusted: numpy bit patterns. Not covered: ROS2 bag export (the "
        "installed rosbags writer needs an argument evo does not pass), "
        "denormals / values beyond 1e+-300.",
        "DESIGN.md 4/C06"),
    "C07": (
        "E1-enum",
        "exhaustive enumeration of all files of <= 3 rows over a row grammar "
        "against an independent parser",
        "TUM, KITTI and 17-column EuRoC files built from every sequence of "
        "<=3 rows over {valid row (4 float spellings), comment, missing inner "
        "field, extra field, trailing delimiter, doubled delimiter, blank "
        "row, non-numeric field at 5-8 positions} x line ending x BOM x "
        "str/Path/handle: well-formed files load to exactly the numbers in "
        "the right slots (independent tokenizer, quaternion->matrix formula, "
        "ns->s within 1 ulp), malformed ones raise FileInterfaceException; "
        "files without data rows; evo-written files parsed independently; "
        "transform files in 3 forms incl. 8 invalid classes. " 
        "Text transforms also in other whitespace layouts (padded columns, tabs, indentation and trailing blanks, CRLF without final newline, comment line). " 
        "Written files cover the hard rotation alphabet (exact half / quarter turns, angles within 1e-12 of 0 and pi). " 
        "Files whose last row has no line end; rows stamped earlier than their predecessors. " 
        "Invalid rotation blocks also at overall scales 1e-4 and 1e-2.",
        "Trusted: mc/refmodel/files.py, Python float(). EuRoC rows are "
        "malformed if < 8 columns or inconsistent with the other rows.",
        "DESIGN.md 4/C07"),
    "C17": (
        "E2-hist",
        "exhaustive enumeration of run histories over the {absent, old, new} "
        "state of every output path with scripted answers, bytewise "
        "directory snapshots",
        "30 output kinds (7 writer functions, every output option of evo_ape, "
        "evo_rpe, evo_traj, evo_res, evo_config generate -o, evo_fig) x "
        "initial {absent, old, first-of-several old} x histories of 1-2 runs "
        "x answers {y, n, '', Y, yes} x warnings on/off x str/Path: existing "
        "files bytewise unchanged unless the answer is exactly 'y' or "
        "warnings are off, a prompt is issued iff something exists, nothing "
        "else is written in place, outputs are written otherwise; a "
        "completeness guard introspects the parsers for uncovered output "
        "options. " 
        "Bystander files with neighbouring names exist in every initial state and may never change; extension-less plot target also with savefig.format = pdf. " 
        "Writers are also called with the flag by position / left at its default; one path given to two output options of evo_ape/evo_rpe is judged by an event monitor (every write onto a then-existing path needs a question answered y since the last write to it). " 
        "Answers include whitespace-padded y and an unanswered question (EOF); a plot target that ends with a dot. " 
        "Initial state with an existing file much longer than any output (no remains of it after a replacement); two inputs with the same file stem. " 
        "A collection loaded from a file and serialized back onto that file.",
        "Trusted: input() substitution, directory snapshots. Excluded: "
        "--logfile (append), bag exports (time-stamped names).",
        "DESIGN.md 4/C17"),
    "C20": (
        "E1-enum",
        "exhaustive enumeration of plot modes x settings with read-back of "
        "matplotlib artist data",
        "7 plot modes x pose counts x timestamps/start time x markers x axis "
        "markers x correspondence edges x 4 length units x storage modes: "
        "line, marker, colour-mapped segment, frame-marker and edge "
        "coordinates and axis labels are read back from the artists and "
        "compared with the columns named by the mode; xyz/rpy/speed plots "
        "(called twice on the same objects) and error_array against shifted "
        "timestamps / index; plot.trajectories() for dict/list/single. " 
        "add_start_end_markers with the caller's own symbols (also one symbol for both ends); plot.trajectories() also for tuple, generator, iterator and dict view. " 
        "The figure handed to prepare_axis is not pyplot's current figure. " 
        "Time-reversed stamps and a backwards jump in the map plots.",
        "Trusted: matplotlib artist accessors (incl. private 3-D fields). "
        "Agg backend only.",
        "DESIGN.md 4/C20"),
}

NOT_YET = {
}


def main():
    props = [json.loads(l) for l in open(os.path.join(HERE, "properties.jsonl"))]
    ids = [p["id"] for p in props]
    checks = []
    na = []
    for pid in ids:
        if pid in CHECKS:
            engine, technique, text, note, ref = CHECKS[pid]
            checks.append({
                "property_id": pid,
                "quick_cmd": "./check %s --tier quick" % pid,
                "thorough_cmd": "./check %s --tier thorough" % pid,
                "evidence_file": "/verif/evidence/%s.json" % pid,
                "replay_cmd_template": "./check %s --replay {path}" % pid,
                "engine": engine,
                "level_claimed": {
                    "category": "model_checking",
                    "text": text,
                    "design_ref": ref
                },
                "level_note": note,
                "technique": technique,
            })
        else:
            na.append({
                "property_id": pid,
                "reason": NOT_YET.get(
                    pid, "not claimed yet: the bounded exhaustive check "
                    "designed in DESIGN.md section 4 is not built/validated "
                    "at this commit (model checking does apply)")
            })
    manifest = {
        "version": 1,
        "setup_cmd": "cd /verif && /venv/bin/python -m compileall -q mc >/dev/null; chmod +x check; true",
        "hooks": {
            "guard": "EVO_VERIF",
            "enable": "no source hooks exist: all interception (file system, "
                      "input(), pid, stdout, SETTINGS restore) is done by "
                      "substitution from the harness; checks import evo "
                      "editable from /repo's working tree",
            "baseline_off_cmd": "cd /repo && /venv/bin/python -m pytest -ra -q "
                                "-p no:cacheprovider --timeout=900 "
                                "--continue-on-collection-errors",
            "source_commits": [],
            "add_only": True
        },
        "engines": [
            {"name": "E1-enum", "path": "mc/engine/core.py",
             "serves_properties": [p for p in ids if p in CHECKS and CHECKS[p][0] == "E1-enum"],
             "kind_free_text": "small-scope exhaustive input/configuration "
                               "enumeration on the real code, sharded over 16 "
                               "workers, reference-model oracle"},
            {"name": "E2-hist", "path": "mc/engine/hist.py",
             "serves_properties": [p for p in ids if p in CHECKS and CHECKS[p][0] == "E2-hist"],
             "kind_free_text": "explicit-state BFS over operation histories of "
                               "live evo objects with replay, canonical state "
                               "hashing and a lock-step reference model"},
            {"name": "E3-vfs", "path": "mc/engine/vfs.py",
             "serves_properties": [p for p in ids if p in CHECKS and CHECKS[p][0] == "E3-vfs"],
             "kind_free_text": "virtual file system + virtual processes: every "
                               "crash point / torn write and every interleaving "
                               "of file-system steps"},
            {"name": "E4-cli", "path": "mc/engine/cli.py",
             "serves_properties": [p for p in ids if p in CHECKS and CHECKS[p][0] == "E4-cli"],
             "kind_free_text": "in-process driver of the real CLI parsers and "
                               "run() functions over exhaustive option lattices"},
        ],
        "checks": checks,
        "not_applicable": na,
        "notes": "All checks: ./check <ID> --tier quick|thorough; exit 0 held, "
                 "1 VIOLATION, 2 harness error. Known findings / fixed defects: "
                 "known_findings.jsonl. Seeded breaking changes: seeded/."
    }
    out = os.path.join(HERE, "MANIFEST.json")
    with open(out, "w") as f:
        json.dump(manifest, f, indent=1)
        f.write("\n")
    try:
        import jsonschema
        schema = json.load(open("/root/.vp/MANIFEST.schema.json"))
        jsonschema.validate(manifest, schema)
        print("MANIFEST.json valid: %d checks, %d not_applicable" %
              (len(checks), len(na)))
    except ImportError:
        print("jsonschema not available; not validated")


if __name__ == "__main__":
    main()
