#!/usr/bin/env python3
"""tools/seed_cross.py [seed names...]: for every kept seed run the checks of the
properties related to the files it touches (besides its own) against a scratch
worktree with the change and record `also_detected_by` / `not_detected_by` in
meta.json.  One scratch worktree per seed, removed afterwards."""
import glob, json, os, re, subprocess, sys
REL = {
 "evo/core/trajectory.py": ["C04", "C05", "C08", "C11", "C14", "C16", "C01", "C15"],
 "evo/core/sync.py": ["C05", "C01", "C16", "C15"],
 "evo/core/metrics.py": ["C01", "C02", "C12", "C16", "C10"],
 "evo/core/filters.py": ["C10", "C11", "C02", "C08"],
 "evo/core/geometry.py": ["C03", "C04", "C08", "C10"],
 "evo/core/lie_algebra.py": ["C09", "C07", "C01", "C08", "C15"],
 "evo/core/transformations.py": ["C14", "C08", "C07"],
 "evo/core/result.py": ["C13", "C16"],
 "evo/core/units.py": ["C12"],
 "evo/tools/file_interface.py": ["C06", "C07", "C17", "C15", "C13"],
 "evo/tools/pandas_bridge.py": ["C13", "C06", "C17", "C16"],
 "evo/tools/plot.py": ["C20", "C16", "C17"],
 "evo/tools/user.py": ["C17"],
 "evo/tools/settings.py": ["C18", "C19"],
 "evo/main_config.py": ["C18", "C19", "C17"],
 "evo/main_ape.py": ["C01", "C04", "C12", "C17"],
 "evo/main_rpe.py": ["C02", "C04", "C12", "C17"],
 "evo/main_traj.py": ["C15", "C17"],
 "evo/main_res.py": ["C13", "C17"],
 "evo/common_ape_rpe.py": ["C01", "C02", "C17"],
 "evo/entry_points.py": ["C18"],
}
names = sys.argv[1:] or [os.path.basename(d) for d in sorted(glob.glob("/verif/seeded/*"))]
for name in names:
    d = "/verif/seeded/" + name
    meta = json.load(open(d + "/meta.json"))
    own = meta["property"]
    files = re.findall(r"^\+\+\+ b/(\S+)", open(d + "/patch.diff").read(), re.M)
    rel = []
    for f in files:
        for c in REL.get(f, []):
            if c != own and c not in rel:
                rel.append(c)
    wt = "/tmp/crosswt_%d" % os.getpid()
    subprocess.run(["git", "-C", "/repo", "worktree", "add", "-q", "--detach", wt, "HEAD"], check=True)
    try:
        r = subprocess.run(["git", "-C", wt, "apply", d + "/patch.diff"])
        if r.returncode != 0:
            r = subprocess.run(["git", "-C", wt, "apply", "-3", d + "/patch.diff"])
        if r.returncode != 0:
            print(name, "patch does not apply"); continue
        yes, no = [], []
        for c in rel:
            env = dict(os.environ, EVO_VERIF_REPO=wt)
            out = subprocess.run(["/verif/check", c, "--tier", "quick", "--no-evidence"], env=env,
                                 capture_output=True, text=True)
            (yes if out.returncode == 1 and "VIOLATION property=" in out.stdout else no).append(c)
            if out.returncode == 2:
                no[-1] = c + "(harness-error)" if no and no[-1] == c else c
        meta["also_detected_by"] = yes
        meta["not_detected_by"] = no
        json.dump(meta, open(d + "/meta.json", "w"), indent=1)
        print(name, "own:", own, "also:", yes, "not:", no, flush=True)
    finally:
        subprocess.run(["git", "-C", "/repo", "worktree", "remove", "--force", wt])
