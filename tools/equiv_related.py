#!/usr/bin/env python3
"""tools/equiv_related.py [names...]: like equiv_test.sh, but runs only the checks related to
the files a refactoring touches (same relation table as seed_cross.py) - the quick way to
re-confirm silence after the checks changed.  Exit code 0 iff every run exits 0."""
import glob, importlib.util, os, re, subprocess, sys
spec = importlib.util.spec_from_file_location("seed_cross_rel", "/verif/tools/seed_cross.py")
src = open("/verif/tools/seed_cross.py").read()
REL = eval(src[src.index("REL = {") + 6: src.index("}\n", src.index("REL = {")) + 1])
names = sys.argv[1:] or sorted(os.listdir("/verif/equiv"))
bad = 0
for n in names:
    patch = "/verif/equiv/%s/patch.diff" % n
    files = re.findall(r"^\+\+\+ b/(\S+)", open(patch).read(), re.M)
    checks = sorted({c for f in files for c in REL.get(f, [])})
    wt = "/tmp/equivrel_%d" % os.getpid()
    subprocess.run(["git", "-C", "/repo", "worktree", "add", "-q", "--detach", wt, "HEAD"], check=True)
    try:
        if subprocess.run(["git", "-C", wt, "apply", patch]).returncode != 0:
            print(n, "patch does not apply"); bad += 1; continue
        alarms = []
        for c in checks:
            r = subprocess.run(["/verif/check", c, "--tier", "quick", "--no-evidence"],
                               env=dict(os.environ, EVO_VERIF_REPO=wt), capture_output=True, text=True)
            if r.returncode != 0:
                alarms.append("%s(rc=%d)" % (c, r.returncode))
                print("   ", [l for l in r.stdout.splitlines() if l.startswith("  [")][:1])
        print("%s: checks=%s alarms=%s" % (n, ",".join(checks), alarms or "none"), flush=True)
        bad += len(alarms)
    finally:
        subprocess.run(["git", "-C", "/repo", "worktree", "remove", "--force", wt])
sys.exit(1 if bad else 0)
