#!/usr/bin/env python3
"""tools/seed_keep.py <src_dir> <PROP> <letter> "<summary line of seed_batch>" [note]
copies patch.diff / demo.py / meta.json into /verif/seeded/<PROP>-<letter>/ and
records what was confirmed."""
import json, os, shutil, sys
src, prop, letter, line = sys.argv[1:5]
note = sys.argv[5] if len(sys.argv) > 5 else ""
dst = "/verif/seeded/%s-%s" % (prop, letter)
os.makedirs(dst, exist_ok=True)
for f in ("patch.diff", "demo.py"):
    shutil.copy(os.path.join(src, f), os.path.join(dst, f))
try:
    meta = json.load(open(os.path.join(src, "meta.json")))
except Exception:
    meta = {}
import re
viol = int(re.search(r"VIOLATION_lines=(\d+)", line).group(1))
meta.update({
    "property": prop,
    "confirmed": {
        "tests_with_change": re.search(r"tests=\[(.*?)\]", line).group(1),
        "demo_with_change": re.search(r"demo_with=\[(.*?)\]", line).group(1),
        "demo_without_change": re.search(r"demo_without=\[(.*?)\]", line).group(1),
        "how": "tools/seed_test.sh: scratch worktree of /repo HEAD, git apply, pinned pytest, demo.py, ./check %s --tier quick with EVO_VERIF_REPO=<worktree>, revert, demo.py" % prop,
    },
    "check_result": {"check": "./check %s --tier quick" % prop, "violation_lines": viol,
                     "detected": viol > 0,
                     "first_report": line.split("::", 1)[1].strip() if "::" in line else ""},
})
if note:
    meta["note"] = note
json.dump(meta, open(os.path.join(dst, "meta.json"), "w"), indent=1)
print("kept", dst, "detected" if viol else "MISSED")
