#!/usr/bin/env python3
"""Rewrites the block between <!-- SIZES:BEGIN --> and <!-- SIZES:END --> in DESIGN.md from
evidence/*.json (quick tier numbers as committed)."""
import json, re, glob
rows = []
for f in sorted(glob.glob("/verif/evidence/C*.json")):
    e = json.load(open(f)); c = e["coverage"]
    rows.append("| %s | %s | %d | %d | %d | %d | %s | %.0f s |" % (
        e["property_id"], e["tier"], c["states"], c["transitions"], c["evaluations"],
        c["distinct_nontrivial"], "yes" if c.get("exhaustive") else "no (cap)", e["wall_s"]))
block = ["<!-- SIZES:BEGIN -->",
         "| id | tier | states | transitions | evaluations | non-trivial | exhaustive within bounds | wall |",
         "|----|------|--------|-------------|-------------|-------------|--------------------------|------|"] + rows + ["<!-- SIZES:END -->"]
p = "/verif/DESIGN.md"; s = open(p).read()
if "<!-- SIZES:BEGIN -->" not in s:
    s = s.replace("Deviations from section 4 worth knowing:", "Measured sizes of the committed evidence (regenerate with `tools/gen_size_table.py`):\n\n<!-- SIZES:BEGIN -->\n<!-- SIZES:END -->\n\nDeviations from section 4 worth knowing:", 1)
s = re.sub(r"<!-- SIZES:BEGIN -->.*?<!-- SIZES:END -->", "\n".join(block), s, flags=re.S)
open(p, "w").write(s)
print(len(rows), "rows")
