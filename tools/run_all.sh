#!/bin/bash
# tools/run_all.sh <tier> <seed> [--no-evidence] : runs every check, prints one line each
TIER="${1:-quick}"; SEED="${2:-0}"; shift 2
cd /verif
for i in $(seq -w 1 20); do
  out=$(VERIF_SEED=$SEED ./check C$i --tier $TIER "$@" 2>&1); rc=$?
  echo "rc=$rc $(echo "$out" | tail -1 | cut -c1-170)"
  if [ $rc -ne 0 ]; then echo "$out" | grep -v "^VIOLATION" | head -5 | cut -c1-300; fi
done
