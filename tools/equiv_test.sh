#!/bin/bash
# tools/equiv_test.sh [names...]: applies each property-preserving refactoring of /verif/equiv to a
# scratch worktree and runs EVERY check (quick) against it; all must stay silent (exit 0).
cd /verif
NAMES="$@"; [ -z "$NAMES" ] && NAMES=$(ls equiv)
for n in $NAMES; do
  WT=/tmp/equivwt_$$; git -C /repo worktree add -q --detach $WT HEAD || exit 2
  git -C $WT apply /verif/equiv/$n/patch.diff || { echo "$n: patch does not apply"; git -C /repo worktree remove --force $WT; continue; }
  t=$(/verif/tools/run_tests.sh $WT | grep -o "[0-9]* passed")
  bad=""
  for i in $(seq -w 1 20); do
    EVO_VERIF_REPO=$WT ./check C$i --tier quick --no-evidence > /tmp/equiv_out_$$.txt 2>&1; rc=$?
    if [ $rc -ne 0 ]; then bad="$bad C$i(rc=$rc)"; grep -m2 "^  \[" /tmp/equiv_out_$$.txt | cut -c1-220; fi
  done
  echo "$n: tests=[$t] alarms:[${bad:- none}]"
  git -C /repo worktree remove --force $WT
done
rm -f /tmp/equiv_out_$$.txt
