#!/bin/bash
# tools/seed_test.sh <seed_dir> <PROP> [tier] [--skip-demo]
# Verifies a seeded breaking change in a scratch worktree (never in /repo):
#   tests still pass, demo fails with it / passes without it, and runs the
#   property's check against the scratch tree (EVO_VERIF_REPO).
SD="$(realpath "$1")"; PROP="$2"; TIER="${3:-quick}"
WT="/tmp/seedwt_$$"
git -C /repo worktree add -q --detach "$WT" HEAD || exit 2
trap 'git -C /repo worktree remove --force "$WT" >/dev/null 2>&1; rm -rf "$WT"' EXIT
if ! git -C "$WT" apply "$SD/patch.diff" 2>/dev/null; then
  if ! git -C "$WT" apply -3 "$SD/patch.diff" 2>/dev/null; then echo "PATCH-DOES-NOT-APPLY"; exit 3; fi
fi
echo "--- tests with change:"; /verif/tools/run_tests.sh "$WT"
H=$(mktemp -d); ( cd "$WT" && HOME=$H PYTHONPATH="$WT" PYTHONWARNINGS=ignore /venv/bin/python "$SD/demo.py" >/tmp/seed_demo_$$.log 2>&1 ); RC=$?; rm -rf $H
echo "--- demo with change: exit $RC ($(tail -1 /tmp/seed_demo_$$.log | cut -c1-150))"
echo "--- check $PROP ($TIER) against changed tree:"
( cd /verif && EVO_VERIF_REPO="$WT" ./check "$PROP" --tier "$TIER" --no-evidence 2>&1 | grep -v -i warning | tail -4 ); 
git -C "$WT" checkout -q -- . ; git -C "$WT" reset -q --hard
H=$(mktemp -d); ( cd "$WT" && HOME=$H PYTHONPATH="$WT" PYTHONWARNINGS=ignore /venv/bin/python "$SD/demo.py" >/tmp/seed_demo_$$.log 2>&1 ); RC=$?; rm -rf $H
echo "--- demo without change: exit $RC"; rm -f /tmp/seed_demo_$$.log
