#!/bin/bash
# tools/seed_regress.sh [seed names...]: runs only the own check (quick) of every kept seed
# against a scratch worktree with the change (no pytest / demo: those were confirmed when
# the seed was kept).  One line per seed: DETECTED / MISSED / HARNESS-ERROR.
cd /verif
names="$@"; [ -z "$names" ] && names=$(ls seeded)
for name in $names; do
  d=/verif/seeded/$name
  prop=$(python3 -c "import json;print(json.load(open('$d/meta.json'))['property'])")
  WT=/tmp/regwt_$$
  git -C /repo worktree add -q --detach $WT HEAD || exit 2
  git -C $WT apply "$d/patch.diff" 2>/dev/null || git -C $WT apply -3 "$d/patch.diff" 2>/dev/null || { echo "$name NOAPPLY"; git -C /repo worktree remove --force $WT; continue; }
  out=$(EVO_VERIF_REPO=$WT ./check $prop --tier quick --no-evidence 2>&1)
  rc=$?
  if echo "$out" | grep -q "^VIOLATION property=$prop"; then r=DETECTED; elif [ $rc -eq 2 ]; then r=HARNESS-ERROR; else r=MISSED; fi
  echo "$name $prop $r"
  git -C /repo worktree remove --force $WT; rm -rf $WT
done
