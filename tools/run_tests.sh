#!/bin/bash
# run the pinned suite of a tree (default /repo) with an isolated HOME; prints the summary line
TREE="${1:-/repo}"
H=$(mktemp -d /tmp/evotest_home_XXXX)
cd "$TREE" && HOME=$H /venv/bin/python -m pytest -q -p no:cacheprovider --timeout=900 --continue-on-collection-errors 2>&1 | grep -E "^(FAILED|ERROR)|passed|failed" | grep -v -E "smoke_test|TestBagFile"
rm -rf "$H"
