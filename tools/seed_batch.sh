#!/bin/bash
# tools/seed_batch.sh <dir-with-PROP/x subdirs | seeded> PROP...   -> one summary line per seed
ROOT="$1"; shift
for P in "$@"; do
  for d in "$ROOT"/$P/* "$ROOT"/$P-*; do
    [ -f "$d/patch.diff" ] || continue
    out=$(/verif/tools/seed_test.sh "$d" "$P" 2>&1 | grep -v -E "Warning:|warnings.warn")
    tests=$(echo "$out" | grep -A1 "tests with change" | tail -1 | grep -o "[0-9]* passed")
    demo=$(echo "$out" | grep "demo with change" | grep -o "exit [0-9]*")
    demo0=$(echo "$out" | grep "demo without change" | grep -o "exit [0-9]*")
    viol=$(echo "$out" | grep -c "^VIOLATION")
    herr=$(echo "$out" | grep -c "HARNESS-ERROR")
    napply=$(echo "$out" | grep -c "PATCH-DOES-NOT-APPLY")
    first=$(echo "$out" | grep -m1 "^  \[" | cut -c1-160)
    echo "$P $(basename $d): tests=[$tests] demo_with=[$demo] demo_without=[$demo0] VIOLATION_lines=$viol harness_err=$herr noapply=$napply :: $first"
  done
done
