#!/usr/bin/env python3
"""Rewrites the block between <!-- SEEDS:BEGIN --> and <!-- SEEDS:END --> in
DESIGN.md from /verif/seeded/*/meta.json."""
import glob, json, os, re
rows = []
for d in sorted(glob.glob("/verif/seeded/*")):
    mp = os.path.join(d, "meta.json")
    if not os.path.exists(mp):
        continue
    m = json.load(open(mp))
    name = os.path.basename(d)
    cr = m.get("check_result", {})
    summ = (m.get("summary") or "").replace("|", "/").replace("\n", " ")
    if len(summ) > 230:
        summ = summ[:227] + "..."
    note = (m.get("note") or "").replace("|", "/")
    det = "yes" if cr.get("detected") else "**no**"
    if note:
        det += " (" + note + ")"
    others = m.get("also_detected_by")
    rows.append("| %s | %s | %s | %s |" % (name, m.get("property"), summ, det + (("; also: " + ", ".join(others)) if others else "")))
block = ["<!-- SEEDS:BEGIN -->",
         "| seed | property | change (as described by its author) | detected by `./check <property> --tier quick` |",
         "|------|----------|--------------------------------------|-----------------------------------------------|"] + rows + ["<!-- SEEDS:END -->"]
p = "/verif/DESIGN.md"
s = open(p).read()
s = re.sub(r"<!-- SEEDS:BEGIN -->.*?<!-- SEEDS:END -->", "\n".join(block).replace("\\", "\\\\"), s, flags=re.S)
open(p, "w").write(s)
print(len(rows), "seeds")
