"""
numpy-only reference models of the processing steps that evo's command line
tools chain together (down-sampling, motion filter, crop, merge, association,
alignment, transformation).  Never imports evo.
"""
import math

import numpy as np

from mc.refmodel import geom


class RTraj(object):
    """plain trajectory: list of rotations, list of positions, stamps|None"""
    def __init__(self, Rs, ps, stamps=None):
        self.Rs = [np.array(R, dtype=float) for R in Rs]
        self.ps = [np.array(p, dtype=float) for p in ps]
        self.stamps = None if stamps is None else [float(t) for t in stamps]

    @property
    def n(self):
        return len(self.ps)

    def copy(self):
        return RTraj(self.Rs, self.ps, self.stamps)

    def take(self, ids):
        return RTraj([self.Rs[i] for i in ids], [self.ps[i] for i in ids],
                     None if self.stamps is None else
                     [self.stamps[i] for i in ids])

    def poses(self):
        return [geom.pose(R, p) for R, p in zip(self.Rs, self.ps)]


class Refusal(Exception):
    """the reference pipeline predicts that the request cannot be served"""
    def __init__(self, kind, allowed_only=False):
        Exception.__init__(self, kind)
        self.kind = kind
        # allowed_only: a refusal is acceptable but not required
        self.allowed_only = allowed_only


class Ambiguous(Exception):
    """the fixture hit a case where the property leaves a choice"""


def downsample_ids(n, N):
    if n <= N:
        return list(range(n))
    if N < 1:
        raise Refusal("downsample<1")
    if N == 1:
        return [0]
    # evenly spaced by index, first and last pose included; numpy's
    # linspace semantics (floor of the float product) - the exact floor
    # differs by one for a few (n, N) where k(n-1)/(N-1) is an integer that
    # the float product misses by an ulp (e.g. n=31, N=23, k=11)
    return [int(v) for v in np.linspace(0, n - 1, N)]


def downsample(t, N, ids_fn=None):
    """ids_fn(n, N) -> kept indices.  The CLI pipelines pass evo's own
    down-sampling primitive here (its index choice - floor, round, ... - is
    left open by the property and is decided by C11), so that only the wiring
    is judged; the default is numpy's linspace semantics."""
    ids = (ids_fn or downsample_ids)(t.n, N)
    return t.take([int(i) for i in ids])


def motion_filter_ids(Rs, ps, d, a_rad):
    if len(ps) < 2:
        raise Refusal("motion-filter<2")
    ids = [0]
    last = 0
    path = 0.0
    for i in range(1, len(ps)):
        path += float(np.linalg.norm(ps[i] - ps[i - 1]))
        ang = geom.rot_angle(Rs[last].T @ Rs[i])
        if abs(path - d) < 1e-9 * max(1.0, d) or abs(ang - a_rad) < 1e-9:
            raise Ambiguous("motion filter threshold hit within rounding")
        if path >= d or ang >= a_rad:
            ids.append(i)
            last = i
            path = 0.0
    return ids


def motion_filter(t, d, a_deg):
    return t.take(motion_filter_ids(t.Rs, t.ps, d, math.radians(a_deg)))


def crop(t, start, end):
    s = t.stamps[0] if start is None else start
    e = t.stamps[-1] if end is None else end
    if s > e:
        raise Refusal("crop start>end")
    return t.take([i for i, x in enumerate(t.stamps) if s <= x <= e])


def merge(ts):
    items = []
    for t in ts:
        for k in range(t.n):
            items.append((t.stamps[k], t.Rs[k], t.ps[k]))
    stamps = [it[0] for it in items]
    if len(set(stamps)) != len(stamps):
        raise Ambiguous("equal stamps in merge")
    items.sort(key=lambda it: it[0])
    return RTraj([it[1] for it in items], [it[2] for it in items],
                 [it[0] for it in items])


class AssociationViolation(Exception):
    """the association adopted from the code under test contradicts what the
    association property (C05) states"""


def associate(t1, t2, max_diff, offset_2=0.0, resolver=None):
    """-> (t1', t2').  The trajectory with fewer poses drives (t2 on equal
    length); each of its poses takes its nearest counterpart within max_diff.
    Which contender keeps a *contested* counterpart is left open by the
    property: without a resolver such a case is Ambiguous; with one, the
    resolver's pairs (evo's own primitive on the same stamps) are adopted
    after they passed the predicate that the property does state."""
    s1 = t1.stamps
    s2 = [x + offset_2 for x in t2.stamps]
    first_drives = len(s1) < len(s2)
    drv, oth = (s1, s2) if first_drives else (s2, s1)
    best = {}
    nearest = {}
    contested = False
    for i, s in enumerate(drv):
        d = [abs(c - s) for c in oth]
        m = min(d)
        if d.count(m) > 1:
            if m <= max_diff:
                raise Ambiguous("tie between counterparts")
        j = d.index(m)
        if m > max_diff:
            continue
        nearest[i] = j
        if j in best:
            contested = True
            continue
        best[j] = (m, i)
    if contested:
        if resolver is None:
            raise Ambiguous("contested counterpart")
        got = [(int(a), int(b)) for a, b in resolver(
            list(t1.stamps), list(t2.stamps), max_diff, offset_2)]
        # as (driver index, other index)
        got = [(a, b) if first_drives else (b, a) for a, b in got]
        users = {}
        for i, j in nearest.items():
            users.setdefault(j, []).append(i)
        bad = []
        for (i, j) in got:
            if nearest.get(i) != j:
                bad.append("pair (%d,%d) is not a pose with its nearest "
                           "counterpart within max_diff" % (i, j))
        if any(b[0] <= a[0] or b[1] <= a[1] for a, b in zip(got, got[1:])):
            bad.append("a pose is used twice / time order is not increasing: "
                       "%s" % got)
        for j, us in users.items():
            if len(us) == 1 and (us[0], j) not in got:
                bad.append("pose %d is not paired with its uncontested "
                           "nearest counterpart %d" % (us[0], j))
        if bad:
            raise AssociationViolation("; ".join(bad[:2]))
        pairs = sorted(got)
    else:
        pairs = sorted((i, j) for j, (_, i) in best.items())
    if not pairs:
        raise Refusal("no-association")
    di = [i for i, _ in pairs]
    oi = [j for _, j in pairs]
    if first_drives:
        return t1.take(di), t2.take(oi)
    return t1.take(oi), t2.take(di)


def umeyama(est, ref, with_scale, n=-1):
    """-> (R, t, c); raises Refusal for (near-)degenerate configurations"""
    m = est.n if n == -1 else min(n, est.n)
    if est.n != ref.n:
        raise Refusal("alignment-shape")
    x = np.array(est.ps[:m]).T
    y = np.array(ref.ps[:m]).T
    if m < 1:
        raise Refusal("alignment-degenerate")
    rank = geom.cross_cov_rank_safe(x, y)
    if rank < 2:
        # exactly / numerically degenerate: a refusal is expected, but the
        # rank test may sit on a knife-edge
        raise Refusal("alignment-degenerate", allowed_only=rank_is_ambiguous(
            x, y))
    h = geom.horn(x, y, with_scale)
    if not h["gap"] > 1e-3 * h["lam"]:
        raise Ambiguous("rotation not well determined")
    return h["R"], h["t"], h["c"]


def rank_is_ambiguous(x, y):
    xc = x - x.mean(axis=1, keepdims=True)
    yc = y - y.mean(axis=1, keepdims=True)
    d = np.linalg.svd(yc @ xc.T / x.shape[1], compute_uv=False)
    if d[0] == 0.0:
        return False
    # clearly rank-deficient: second value at rounding level
    return bool(d[1] > 1e-13 * d[0])


def apply_similarity(t, R, tr, c):
    return RTraj([R @ Rp for Rp in t.Rs], [c * (R @ p) + tr for p in t.ps],
                 t.stamps)


def align(est, ref, correct_scale, only_scale, n=-1):
    """-> (aligned est, 4x4 matrix of what was applied)"""
    R, tr, c = umeyama(est, ref, correct_scale or only_scale, n)
    if only_scale:
        return RTraj(est.Rs, [c * p for p in est.ps],
                     est.stamps), geom.sim_matrix(np.eye(3), np.zeros(3), c)
    return apply_similarity(est, R, tr, c), geom.sim_matrix(R, tr, c)


def align_origin(est, ref):
    T = geom.pose(ref.Rs[0], ref.ps[0]) @ geom.pose_inv(
        geom.pose(est.Rs[0], est.ps[0]))
    return apply_similarity(est, T[:3, :3], T[:3, 3], 1.0), T


def sim3_inverse(T):
    s = np.cbrt(np.linalg.det(T[:3, :3]))
    return np.linalg.inv(T), s


def transform(t, T, right=False, propagate=False):
    """left: P -> T P (similarity: positions s R p + t, orientations R R_p);
    right: P -> P T (orientation R_p R_T, position p + R_p t_T);
    right+propagate: every relative motion D_i -> D_i T, first pose kept"""
    s = float(np.cbrt(np.linalg.det(T[:3, :3])))
    Rt, tt = T[:3, :3] / s, T[:3, 3]
    if not right:
        return apply_similarity(t, Rt, tt, s)
    if not propagate:
        return RTraj([R @ Rt for R in t.Rs],
                     [p + R @ tt for R, p in zip(t.Rs, t.ps)], t.stamps)
    # every relative motion D_i becomes D_i*T while the first pose is kept;
    # for a similarity T the chain is a product of similarities (the scale
    # drift accumulates), the orientations are the normalised rotation blocks
    P = t.poses()
    out = [P[0]]
    for k in range(t.n - 1):
        D = geom.pose_inv(P[k]) @ P[k + 1]
        out.append(out[-1] @ D @ T)
    return RTraj([M[:3, :3] / np.cbrt(np.linalg.det(M[:3, :3])) for M in out],
                 [M[:3, 3] for M in out], t.stamps)


def project_positions(t, plane):
    nd = {"xy": 2, "xz": 1, "yz": 0}[plane]
    ps = []
    for p in t.ps:
        q = np.array(p)
        q[nd] = 0.0
        ps.append(q)
    return ps, nd
