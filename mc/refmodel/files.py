"""
Independent writers / parsers of the published trajectory file conventions.
Never imports evo.

TUM    : 'timestamp tx ty tz qx qy qz qw'            (space separated)
KITTI  : 12 row-major entries of the 3x4 pose matrix (space separated)
EuRoC  : 'timestamp[ns], p_x, p_y, p_z, q_w, q_x, q_y, q_z, ...' (commas)
Numbers are written with repr() (shortest string that round-trips float64)
and parsed with Python's correctly rounded float().
"""
import numpy as np

from mc.refmodel import geom


def fmt(v):
    return repr(float(v))


def write_tum(path, stamps, ps, Rs=None, quats_wxyz=None, header=None):
    lines = []
    if header:
        lines.append(header)
    for k, t in enumerate(stamps):
        q = quats_wxyz[k] if quats_wxyz is not None else geom.rot_to_quat_wxyz(
            Rs[k])
        w, x, y, z = [float(v) for v in q]
        p = ps[k]
        lines.append(" ".join(
            fmt(v) for v in (t, p[0], p[1], p[2], x, y, z, w)))
    with open(path, "w") as f:
        f.write("\n".join(lines) + "\n")


def write_kitti(path, ps, Rs):
    lines = []
    for R, p in zip(Rs, ps):
        M = np.hstack([np.asarray(R), np.asarray(p, dtype=float).reshape(3, 1)])
        lines.append(" ".join(fmt(v) for v in M.flatten()))
    with open(path, "w") as f:
        f.write("\n".join(lines) + "\n")


def write_euroc(path, stamps_ns, ps, Rs, extra_cols=9, header=True):
    lines = ["#timestamp [ns],p_x,p_y,p_z,q_w,q_x,q_y,q_z,v_x,v_y,v_z,"
             "b_w_x,b_w_y,b_w_z,b_a_x,b_a_y,b_a_z"] if header else []
    for t, R, p in zip(stamps_ns, Rs, ps):
        q = geom.rot_to_quat_wxyz(R)
        vals = [str(int(t))] + [fmt(v) for v in p] + [fmt(v) for v in q] + [
            "0.0"
        ] * extra_cols
        lines.append(",".join(vals))
    with open(path, "w") as f:
        f.write("\n".join(lines) + "\n")


def _rows(text, delim):
    if text.startswith("﻿"):
        text = text[1:]
    rows = []
    for line in text.splitlines():
        if line.strip() == "" or line.lstrip().startswith("#"):
            continue
        if delim == " ":
            rows.append(line.split(" "))
        else:
            rows.append(line.split(delim))
    return rows


def parse_tum(text):
    """-> (stamps, ps, quats_wxyz) ; raises ValueError on malformed input"""
    stamps, ps, qs = [], [], []
    for row in _rows(text, " "):
        if len(row) != 8:
            raise ValueError("TUM row with %d columns" % len(row))
        v = [float(x) for x in row]
        stamps.append(v[0])
        ps.append(v[1:4])
        qs.append([v[7], v[4], v[5], v[6]])
    if not stamps:
        raise ValueError("no data rows")
    return np.array(stamps), np.array(ps), np.array(qs)


def parse_kitti(text):
    """-> list of 4x4 matrices"""
    out = []
    for row in _rows(text, " "):
        if len(row) != 12:
            raise ValueError("KITTI row with %d columns" % len(row))
        v = [float(x) for x in row]
        M = np.eye(4)
        M[:3, :4] = np.array(v).reshape(3, 4)
        out.append(M)
    if not out:
        raise ValueError("no data rows")
    return out


def parse_euroc(text):
    stamps, ps, qs = [], [], []
    for row in _rows(text, ","):
        if len(row) < 8:
            raise ValueError("EuRoC row with %d columns" % len(row))
        v = [float(x) for x in row]
        stamps.append(v[0] / 1e9)
        ps.append(v[1:4])
        qs.append(v[4:8])
    if not stamps:
        raise ValueError("no data rows")
    return np.array(stamps), np.array(ps), np.array(qs)
