"""
numpy-only reference models for rotations / poses / alignment.
Never imports evo.  Written from the property texts, not from evo's code.
"""
import itertools
import math

import numpy as np


# ------------------------------------------------------------------ rotations
def rodrigues(axis, angle):
    axis = np.asarray(axis, dtype=float)
    n = np.linalg.norm(axis)
    if n == 0.0:
        return np.eye(3)
    k = axis / n
    K = np.array([[0.0, -k[2], k[1]], [k[2], 0.0, -k[0]], [-k[1], k[0], 0.0]])
    return np.eye(3) + math.sin(angle) * K + (1.0 - math.cos(angle)) * (K @ K)


def rot24():
    """the 24 proper rotations of the cube: exact 0/+-1 matrices"""
    out = []
    for perm in itertools.permutations(range(3)):
        for signs in itertools.product((1.0, -1.0), repeat=3):
            m = np.zeros((3, 3))
            for r in range(3):
                m[r, perm[r]] = signs[r]
            if round(np.linalg.det(m)) == 1:
                out.append(m)
    out.sort(key=lambda m: (0 if np.array_equal(m, np.eye(3)) else 1,
                            tuple(m.flatten().tolist())))
    return out


def rot_angle(R):
    """geodesic angle in [0, pi]; robust near 0 and pi (atan2 form)"""
    R = np.asarray(R, dtype=float)
    v = np.array([R[2, 1] - R[1, 2], R[0, 2] - R[2, 0], R[1, 0] - R[0, 1]])
    s = 0.5 * np.linalg.norm(v)
    c = 0.5 * (np.trace(R) - 1.0)
    ang = math.atan2(s, c)
    if ang > 3.0:
        # near pi the antisymmetric part loses precision; use the symmetric
        # part: R + R^T = 2 cos(a) I + 2 (1 - cos a) k k^T
        # => |R - I|_F^2 = 4 (1 - cos a)
        # pi - a = 2 asin( |R - R^T|_F / (4 ...)) is what atan2 gives already;
        # atan2(s, c) is accurate to ~1e-16 relative in s, keep it.
        pass
    return ang


def quat_wxyz_to_rot(q):
    """unit quaternion (w, x, y, z) -> rotation matrix (standard formula)"""
    w, x, y, z = [float(v) for v in q]
    n = w * w + x * x + y * y + z * z
    if n == 0.0:
        return np.eye(3)
    s = 2.0 / n
    return np.array([
        [1 - s * (y * y + z * z), s * (x * y - z * w), s * (x * z + y * w)],
        [s * (x * y + z * w), 1 - s * (x * x + z * z), s * (y * z - x * w)],
        [s * (x * z - y * w), s * (y * z + x * w), 1 - s * (x * x + y * y)],
    ])


def rot_to_quat_wxyz(R):
    """rotation matrix -> unit quaternion (w,x,y,z), w >= 0 (Shepperd)"""
    R = np.asarray(R, dtype=float)
    t = np.trace(R)
    if t > 0:
        s = math.sqrt(t + 1.0) * 2
        w = 0.25 * s
        x = (R[2, 1] - R[1, 2]) / s
        y = (R[0, 2] - R[2, 0]) / s
        z = (R[1, 0] - R[0, 1]) / s
    elif R[0, 0] > R[1, 1] and R[0, 0] > R[2, 2]:
        s = math.sqrt(1.0 + R[0, 0] - R[1, 1] - R[2, 2]) * 2
        w = (R[2, 1] - R[1, 2]) / s
        x = 0.25 * s
        y = (R[0, 1] + R[1, 0]) / s
        z = (R[0, 2] + R[2, 0]) / s
    elif R[1, 1] > R[2, 2]:
        s = math.sqrt(1.0 + R[1, 1] - R[0, 0] - R[2, 2]) * 2
        w = (R[0, 2] - R[2, 0]) / s
        x = (R[0, 1] + R[1, 0]) / s
        y = 0.25 * s
        z = (R[1, 2] + R[2, 1]) / s
    else:
        s = math.sqrt(1.0 + R[2, 2] - R[0, 0] - R[1, 1]) * 2
        w = (R[1, 0] - R[0, 1]) / s
        x = (R[0, 2] + R[2, 0]) / s
        y = (R[1, 2] + R[2, 1]) / s
        z = 0.25 * s
    q = np.array([w, x, y, z])
    if q[0] < 0:
        q = -q
    return q / np.linalg.norm(q)


def is_rotation(R, tol=1e-9):
    R = np.asarray(R, dtype=float)
    return (R.shape == (3, 3)
            and np.abs(R.T @ R - np.eye(3)).max() <= tol
            and abs(np.linalg.det(R) - 1.0) <= tol)


# ---------------------------------------------------------------------- poses
def pose(R, p):
    T = np.eye(4)
    T[:3, :3] = R
    T[:3, 3] = p
    return T


def pose_inv(T):
    R = T[:3, :3]
    out = np.eye(4)
    out[:3, :3] = R.T
    out[:3, 3] = -R.T @ T[:3, 3]
    return out


def sim_matrix(R, t, s):
    T = np.eye(4)
    T[:3, :3] = s * np.asarray(R)
    T[:3, 3] = t
    return T


# ------------------------------------------------------- absolute orientation
def horn(x, y, with_scale=False):
    """
    Horn's closed-form absolute orientation with unit quaternions.
    x, y: 3xn.  Minimises sum |y_i - (c R x_i + t)|^2 over *proper* rotations.
    Returns dict(R, t, c, sse, gap) where gap = lambda_max - lambda_2 of the
    4x4 matrix N (rotation determined iff gap > 0).
    Independent of the SVD / Kabsch route of evo.
    """
    x = np.asarray(x, dtype=float)
    y = np.asarray(y, dtype=float)
    n = x.shape[1]
    mx = x.mean(axis=1, keepdims=True)
    my = y.mean(axis=1, keepdims=True)
    xc = x - mx
    yc = y - my
    M = xc @ yc.T  # M[a,b] = sum x_a y_b
    Sxx, Sxy, Sxz = M[0]
    Syx, Syy, Syz = M[1]
    Szx, Szy, Szz = M[2]
    N = np.array([
        [Sxx + Syy + Szz, Syz - Szy, Szx - Sxz, Sxy - Syx],
        [Syz - Szy, Sxx - Syy - Szz, Sxy + Syx, Szx + Sxz],
        [Szx - Sxz, Sxy + Syx, -Sxx + Syy - Szz, Syz + Szy],
        [Sxy - Syx, Szx + Sxz, Syz + Szy, -Sxx - Syy + Szz],
    ])
    w, v = np.linalg.eigh(N)
    lam = w[-1]
    q = v[:, -1]
    R = quat_wxyz_to_rot(q)
    Sx = float((xc * xc).sum())
    Sy = float((yc * yc).sum())
    if with_scale:
        c = lam / Sx if Sx > 0 else 1.0
        sse = Sy - (lam * lam / Sx if Sx > 0 else 0.0)
    else:
        c = 1.0
        sse = Sx + Sy - 2.0 * lam
    t = (my - c * R @ mx).ravel()
    return {
        "R": R,
        "t": t,
        "c": c,
        "sse": max(sse, 0.0),
        "gap": float(w[-1] - w[-2]),
        "lam": float(lam),
        "Sx": Sx,
        "Sy": Sy,
        "n": n
    }


def sse(x, y, R, t, c):
    d = y - (c * (R @ x) + np.asarray(t).reshape(3, 1))
    return float((d * d).sum())


def cross_cov_rank(x, y):
    """rank of the cross covariance of centred point sets, numpy's relative
    tolerance (used to predict 'degenerate alignment' refusals)"""
    xc = x - x.mean(axis=1, keepdims=True)
    yc = y - y.mean(axis=1, keepdims=True)
    return int(np.linalg.matrix_rank(yc @ xc.T / x.shape[1]))


def cross_cov_rank_safe(x, y, rel=1e-9):
    """number of singular values of the cross covariance that are clearly
    non-zero (> rel * largest).  Values between rounding level and rel are a
    numerical knife-edge: a rank test may go either way there, so callers use
    this to decide when a refusal is *allowed* (rank_safe < 2) as opposed to
    *forbidden* (rank_safe >= 2)."""
    xc = x - x.mean(axis=1, keepdims=True)
    yc = y - y.mean(axis=1, keepdims=True)
    d = np.linalg.svd(yc @ xc.T / x.shape[1], compute_uv=False)
    if d[0] == 0.0:
        return 0
    return int(np.count_nonzero(d > rel * d[0]))
