"""
C12 - a metric result is self-consistent: statistics, companion arrays, unit.

E1: all error arrays of length 1..5 over a magnitude alphabet (statistics vs
definitions); E2-style: all unit-change paths of length <= 3 from every
relation's initial unit with statistics re-checked after every step;
E1: ape()/rpe() result assembly over relation x unit x delta lattices.
"""
import itertools
import math
import os
import tempfile

import numpy as np

from mc import common
from mc.engine import cli
from mc.engine.core import Acc, pmap_acc, shard
from mc.refmodel import geom

VALS = (1e-12, 0.5, 1.0, 3.0, 1e6)
UNITS = ("unit-less", "mm", "cm", "m", "km", "s", "deg", "rad", "frames", "%")
LEN_F = {"mm": 1e-3, "cm": 1e-2, "m": 1.0, "km": 1e3}


def ref_stats(e):
    e = [float(x) for x in e]
    n = len(e)
    mean = math.fsum(e) / n
    sse = math.fsum(x * x for x in e)
    s = sorted(e)
    med = s[n // 2] if n % 2 else 0.5 * (s[n // 2 - 1] + s[n // 2])
    var = math.fsum((x - mean)**2 for x in e) / n
    return {"rmse": math.sqrt(sse / n), "sse": sse, "mean": mean,
            "median": med, "std": math.sqrt(var), "min": min(e), "max": max(e)}


def check_stats(metric, label=""):
    """statistics of a PE object against the definitions on its error array"""
    from evo.core import metrics
    e = np.array(metric.error, dtype=float)
    st = metric.get_all_statistics()
    exp = ref_stats(e)
    msgs = []
    scale = max(abs(v) for v in e) if len(e) else 1.0
    if set(st) != set(exp):
        msgs.append("%sstatistics keys %s" % (label, sorted(st)))
        return msgs
    for k, v in exp.items():
        tol = 1e-12 * max(abs(v), scale if k != "sse" else scale * scale)
        if k == "std":
            # std of nearly constant data suffers cancellation by definition
            tol = max(tol, 1e-9 * scale)
        if abs(float(st[k]) - v) > tol:
            msgs.append("%s%s = %r, definition gives %r" % (label, k, st[k],
                                                            v))
        single = metric.get_statistic(metrics.StatisticsType(k))
        if float(single) != float(st[k]):
            msgs.append("%sget_statistic(%s) disagrees with "
                        "get_all_statistics" % (label, k))
    ulp = 4 * np.finfo(float).eps
    r = {k: float(v) for k, v in st.items()}
    sl = ulp * max(1.0, scale)
    if not (r["min"] <= r["median"] + sl and r["median"] <= r["max"] + sl):
        msgs.append("%smin <= median <= max violated" % label)
    if not (r["min"] <= r["mean"] + sl and r["mean"] <= r["rmse"] + sl * 4
            and r["rmse"] <= r["max"] + sl * 4):
        msgs.append("%smin <= mean <= rmse <= max violated: %s" % (label, r))
    if abs(r["rmse"]**2 - (r["mean"]**2 + r["std"]**2)) > 1e-9 * max(
            1e-300, r["rmse"]**2):
        msgs.append("%srmse^2 != mean^2 + std^2" % label)
    return msgs


def shard_stats(arg):
    from evo.core import metrics
    firsts, maxlen, big = arg
    acc = Acc()
    for f in firsts:
        for n in range(1, maxlen + 1):
            for rest in itertools.product(VALS, repeat=n - 1):
                arr = np.array((VALS[f], ) + rest)
                m = metrics.APE(metrics.PoseRelation.translation_part)
                m.error = arr.copy()
                msgs = check_stats(m)
                if not np.array_equal(m.error, arr):
                    msgs.append("computing statistics modified the values")
                acc.count("evaluations")
                acc.count("transitions")
                acc.outcome("stats")
                if len(set(arr.tolist())) > 1:
                    acc.count("nontrivial")
                if msgs:
                    acc.violation("stats", "%s: %s" % (arr.tolist(),
                                                       "; ".join(msgs[:2])),
                                  {"array": arr.tolist()}, {"kind": "stats"})
    if big and 0 in firsts:
        for name, arr in (("const", np.full(10**6, 0.1)),
                          ("ramp", np.linspace(1e-3, 1e3, 10**6)),
                          ("alt", np.tile([1e-12, 1e6], 5 * 10**5))):
            m = metrics.APE(metrics.PoseRelation.translation_part)
            m.error = arr.copy()
            msgs = check_stats(m)
            acc.count("evaluations")
            acc.count("transitions")
            if msgs:
                acc.violation("stats", "%s(1e6): %s" % (name, msgs[0]),
                              {"big": name}, {"kind": "stats"})
    return acc


# --------------------------------------------------------------- unit machine
def fixture():
    N = 7
    # the heading sweeps back and forth: in all-pairs mode with an angular
    # delta the pair end indices are then not ascending
    yaw = [0.0, 0.5, 1.0, 0.5, 0.0, 0.5, 1.0]
    Rs = [geom.rodrigues((0, 0, 1), yaw[k]) @ geom.rodrigues((1, 0, 0),
                                                              0.1 * k)
          for k in range(N)]
    ps = [np.array([1.0 * k, 0.5 * (k % 2), 0.25 * k]) for k in range(N)]
    # stand-still in the reference between poses 2 and 3
    ps[3] = ps[2].copy()
    Re = [R @ geom.rodrigues((0, 1, 0), 0.05 * (k + 1))
          for k, R in enumerate(Rs)]
    pe = [p + np.array([0.1 * k, -0.05 * k, 0.02 * k * k])
          for k, p in enumerate(ps)]
    pe[3] = pe[3] + np.array([0.0, 0.3, 0.0])
    ts = [10.0 + 0.5 * k for k in range(N)]
    return (Rs, ps), (Re, pe), ts


def allowed(u_from, u_to):
    if u_from == u_to:
        return True
    if u_from in LEN_F and u_to in LEN_F:
        return True
    if {u_from, u_to} == {"deg", "rad"}:
        return True
    return False


def factor(u_from, u_to):
    if u_from == u_to:
        return 1.0
    if u_from in LEN_F:
        return LEN_F[u_from] / LEN_F[u_to]
    return 180.0 / math.pi if u_from == "rad" else math.pi / 180.0


def make_metric(kind, relation):
    from evo.core import metrics
    from evo.core.units import Unit
    (Rs, ps), (Re, pe), ts = fixture()
    ref = common.make_traj(Rs, ps, ts, "quat")
    est = common.make_traj(Re, pe, ts, "quat")
    rel = metrics.PoseRelation[relation]
    if kind == "APE":
        m = metrics.APE(rel)
    else:
        m = metrics.RPE(rel, 1, Unit.frames)
    m.process_data((ref, est))
    return m


def run_unit_path(kind, relation, path):
    from evo.core import metrics
    from evo.core.units import Unit
    m = make_metric(kind, relation)
    orig = np.array(m.error, dtype=float).copy()
    unit0 = m.unit.value
    cur = unit0
    msgs = check_stats(m, "initial: ")
    outcome = []
    for u in path:
        before_bits = np.array(m.error).tobytes()
        before_unit = m.unit
        try:
            m.change_unit(Unit(u))
            ok = True
        except metrics.MetricsException:
            ok = False
        if ok != allowed(cur, u):
            msgs.append("change_unit %s -> %s %s" %
                        (cur, u, "was refused" if not ok else
                         "was not refused"))
            break
        if not ok:
            outcome.append("refused")
            if np.array(m.error).tobytes() != before_bits or \
                    m.unit is not before_unit:
                msgs.append("refused conversion %s -> %s changed the values "
                            "or the unit" % (cur, u))
                break
        else:
            outcome.append("converted" if u != cur else "same")
            cur = u
            if m.unit.value != u:
                msgs.append("unit is %s after converting to %s" %
                            (m.unit.value, u))
                break
        exp = orig * factor(unit0, cur) if allowed(unit0, cur) else orig
        got = np.array(m.error, dtype=float)
        if got.shape != exp.shape or np.any(
                np.abs(got - exp) > 1e-12 * np.maximum(np.abs(exp), 1e-300)
                + 0.0):
            msgs.append("values after path %s: not original x exact factor "
                        "(%s -> %s)" % (path, unit0, cur))
            break
        s = check_stats(m, "after %s: " % "->".join(path[:len(outcome)]))
        if s:
            msgs += s
            break
        r = m.get_result()
        if m.unit.value not in r.info["label"] or kind not in r.info["label"]:
            msgs.append("label %r does not name metric and unit %s" %
                        (r.info["label"], m.unit.value))
            break
        if (m.unit.value not in r.info["title"] and m.unit.value != "unit-less") \
                or metrics.PoseRelation[relation].value not in r.info["title"]:
            msgs.append("title %r does not name relation and unit" %
                        r.info["title"])
            break
    return msgs, outcome


def shard_units(arg):
    from evo.core import metrics
    acc = Acc()
    for kind, relation in arg:
        for n in (1, 2, 3):
            for path in itertools.product(UNITS, repeat=n):
                msgs, outcome = run_unit_path(kind, relation, list(path))
                acc.count("evaluations")
                acc.count("transitions", n)
                acc.seen("unit_states", (kind, relation, path))
                for o in outcome:
                    acc.outcome("unit:" + o)
                if "converted" in outcome:
                    acc.count("nontrivial")
                if msgs:
                    acc.violation("units", "%s %s path %s: %s" %
                                  (kind, relation, list(path),
                                   "; ".join(msgs[:2])),
                                  {"kind": kind, "relation": relation,
                                   "path": list(path)}, {"kind": "units"})
    return acc


# ------------------------------------------------------------------ assembly
def ref_value(relation, Pr, Pe, Pr2=None, Pe2=None):
    """definition of the error value for one pose pair (APE) or one pair of
    relative motions (RPE)"""
    if Pr2 is None:
        if relation in ("translation_part", "point_distance"):
            return float(np.linalg.norm(Pe[:3, 3] - Pr[:3, 3]))
        E = geom.pose_inv(Pe) @ Pr
    else:
        if relation in ("point_distance", "point_distance_error_ratio"):
            dr = float(np.linalg.norm(Pr2[:3, 3] - Pr[:3, 3]))
            de = float(np.linalg.norm(Pe2[:3, 3] - Pe[:3, 3]))
            if relation == "point_distance":
                return abs(dr - de)
            return abs(dr - de) / dr * 100.0 if dr != 0.0 else None
        Q = geom.pose_inv(Pr) @ Pr2
        P = geom.pose_inv(Pe) @ Pe2
        E = geom.pose_inv(Q) @ P
    if relation == "translation_part":
        return float(np.linalg.norm(E[:3, 3]))
    if relation == "rotation_part":
        return float(np.linalg.norm(E[:3, :3] - np.eye(3)))
    if relation == "full_transformation":
        return float(np.linalg.norm(E - np.eye(4)))
    if relation == "rotation_angle_rad":
        return geom.rot_angle(E[:3, :3])
    if relation == "rotation_angle_deg":
        return math.degrees(geom.rot_angle(E[:3, :3]))
    raise KeyError(relation)


def run_assembly(case):
    from evo import main_ape, main_rpe
    from evo.core import metrics, filters
    from evo.core.units import Unit
    (Rs, ps), (Re, pe), ts = fixture()
    if case.get("est") == "copy":
        # a perfect estimate: every error value is exactly zero
        Re, pe = [R.copy() for R in Rs], [p.copy() for p in ps]
    timed = case["timed"]
    # the estimate's clock differs slightly from the reference's (as after
    # an association within t_max_diff): companion arrays follow the estimate
    ts_ref = [t - 0.004 - 0.001 * k for k, t in enumerate(ts)]
    ref = common.make_traj(Rs, ps, ts_ref if timed else None, case["mode"])
    est = common.make_traj(Re, pe, ts if timed else None, case["mode"])
    rel = metrics.PoseRelation[case["relation"]]
    cu = Unit(case["unit"]) if case["unit"] else None
    Pr = [geom.pose(R, p) for R, p in zip(Rs, ps)]
    Pe = [geom.pose(R, p) for R, p in zip(Re, pe)]
    msgs = []
    rel_name = case["relation"]
    base_unit = {"translation_part": "m", "point_distance": "m",
                 "rotation_angle_deg": "deg", "rotation_angle_rad": "rad",
                 "point_distance_error_ratio": "%"}.get(rel_name, "unit-less")
    try:
        if case["tool"] == "ape":
            r = main_ape.ape(ref, est, rel, change_unit=cu, ref_name="R",
                             est_name="E")
            ids = list(range(len(ps)))
            pairs = None
        else:
            du = {"f": Unit.frames, "m": Unit.meters, "d": Unit.degrees}[
                case["dunit"]]
            with common.quiet():
                pairs = metrics.id_pairs_from_delta(
                    Pr if case["from_ref"] else Pe, case["delta"], du, 0.5,
                    case["all_pairs"])
                r = main_rpe.rpe(ref, est, rel, case["delta"], du, 0.5,
                                 case["all_pairs"], case["from_ref"],
                                 change_unit=cu, ref_name="R", est_name="E",
                                 support_loop=bool(case.get("support_loop")))
    except (metrics.MetricsException, filters.FilterException) as e:
        if isinstance(e, metrics.MetricsException) and not (
                case["unit"] and not allowed(base_unit, case["unit"])):
            return ["refused although the request is valid: %s" % e], "refused"
        return [], "refused:" + type(e).__name__
    if case["unit"] and not allowed(base_unit, case["unit"]):
        return ["incompatible unit change %s -> %s was not refused" %
                (base_unit, case["unit"])], "assembled"
    if "error_array" not in r.np_arrays:
        return ["the result holds no error values (arrays: %s)" %
                sorted(r.np_arrays)], "assembled"
    err = np.array(r.np_arrays["error_array"], dtype=float)
    unit_now = case["unit"] or base_unit
    f = factor(base_unit, unit_now)
    if case["tool"] == "ape":
        exp = [ref_value(rel_name, Pr[k], Pe[k]) for k in ids]
        ends = ids
        stored_ids = ids
    else:
        exp, ends = [], []
        for i, j in pairs:
            v = ref_value(rel_name, Pr[i], Pe[i], Pr[j], Pe[j])
            if v is None:
                continue  # zero reference distance is skipped
            exp.append(v)
            ends.append(j)
        stored_ids = [0] + ends
    exp = np.array(exp) * f
    if err.shape != exp.shape:
        return ["%d error values, expected %d (one per %s)" %
                (len(err), len(exp), "pose" if case["tool"] == "ape"
                 else "selected pair")], "assembled"
    if len(exp) and np.abs(err - exp).max() > 1e-9 * max(1.0,
                                                         np.abs(exp).max()):
        msgs.append("values differ from the definition x unit factor")
    # stored trajectories
    for name, P in (("R", Pr), ("E", Pe)):
        v = common.views(r.trajectories[name])
        if v["n"] != len(stored_ids):
            msgs.append("stored trajectory %s has %d poses, expected %d" %
                        (name, v["n"], len(stored_ids)))
            return msgs, "assembled"
        for k, i in enumerate(stored_ids):
            if not common.close(v["poses"][k], P[i], 10):
                msgs.append("stored trajectory %s pose %d is not processed "
                            "pose %d" % (name, k, i))
                break
    # companion arrays
    if timed:
        off = 0 if case["tool"] == "ape" else 1
        st = [ts[i] for i in stored_ids]
        dref = np.concatenate([[0.0], np.cumsum([np.linalg.norm(
            Pr[b][:3, 3] - Pr[a][:3, 3]) for a, b in zip(stored_ids,
                                                         stored_ids[1:])])])
        dest = np.concatenate([[0.0], np.cumsum([np.linalg.norm(
            Pe[b][:3, 3] - Pe[a][:3, 3]) for a, b in zip(stored_ids,
                                                         stored_ids[1:])])])
        want = {"timestamps": np.array(st[off:]),
                "seconds_from_start": np.array(st[off:]) - st[0],
                "distances_from_start": dref[off:], "distances": dest[off:]}
        for k, w in want.items():
            a = r.np_arrays.get(k)
            if a is None:
                msgs.append("companion array %s missing" % k)
            elif len(a) != len(err):
                msgs.append("companion array %s has %d entries for %d values"
                            % (k, len(a), len(err)))
            elif len(w) and np.abs(np.array(a) - w).max() > 1e-9:
                msgs.append("companion array %s does not refer to the pose "
                            "each value belongs to" % k)
    title, label = r.info["title"], r.info["label"]
    mname = case["tool"].upper()
    if mname not in title or rel.value not in title:
        msgs.append("title %r lacks metric / relation" % title)
    if unit_now != "unit-less" and "(%s)" % unit_now not in title:
        msgs.append("title %r lacks the unit %s" % (title, unit_now))
    if mname not in label or "(%s)" % unit_now not in label:
        msgs.append("label %r lacks metric / unit %s" % (label, unit_now))
    # statistics of the result equal the definitions on its values
    if len(err):
        rs = ref_stats(err)
        for k, v in rs.items():
            if abs(float(r.stats[k]) - v) > 1e-9 * max(1.0, abs(v)):
                msgs.append("result statistic %s = %r, values give %r" %
                            (k, r.stats[k], v))
    return msgs, "assembled"


def assembly_cases():
    rels = ["full_transformation", "translation_part", "rotation_part",
            "rotation_angle_rad", "rotation_angle_deg", "point_distance"]
    cases = []
    unit_opts = {"translation_part": [None, "mm", "km"], "point_distance":
                 [None, "cm"], "rotation_angle_rad": [None, "deg"],
                 "rotation_angle_deg": [None, "rad"]}
    for rel in rels:
        for u in unit_opts.get(rel, [None, "mm"]):
            for timed in (True, False):
                for mode in ("quat", "se3"):
                    cases.append({"tool": "ape", "relation": rel, "unit": u,
                                  "timed": timed, "mode": mode})
    for rel in rels + ["point_distance_error_ratio"]:
        for u in unit_opts.get(rel, [None]):
            for dunit, deltas in (("f", (1, 2, 3)), ("m", (1.0, 2.5)),
                                  ("d", (28.0, 57.0))):
                for delta in deltas:
                    for allp in (False, True):
                        for from_ref in (False, True):
                            for timed in (True, False):
                                cases.append({
                                    "tool": "rpe", "relation": rel, "unit": u,
                                    "dunit": dunit, "delta": delta,
                                    "all_pairs": allp, "from_ref": from_ref,
                                    "timed": timed, "mode": "quat"})
    # (library-only switch of rpe(): work on copies of the inputs)
    cases += [dict(c, support_loop=True) for c in cases
              if c["tool"] == "rpe" and c["timed"]]
    return cases + [dict(c, est="copy") for c in cases]


def shard_assembly(cases):
    acc = Acc()
    for case in cases:
        msgs, outcome = run_assembly(case)
        acc.count("evaluations")
        acc.count("transitions")
        acc.outcome(case["tool"] + ":" + outcome)
        if outcome == "assembled":
            acc.count("nontrivial")
        if msgs:
            acc.violation("assembly", "%s: %s" % (case, "; ".join(msgs[:2])),
                          case, {"kind": "assembly", "tool": case["tool"]})
        elif acc.counters["evaluations"] % 211 == 1:
            acc.sample(case)
    return acc


PLOT_OPTS = [
    ["--save_plot", "p.png"],
    ["--save_plot", "p.png", "--plot_colormap_max_percentile", "90"],
    ["--save_plot", "p.pdf", "--plot_colormap_max", "0.5",
     "--plot_colormap_min", "0.1"],
    ["--serialize_plot", "p.ser", "--plot_colormap_max_percentile", "50",
     "--plot_mode", "xz"],
    ["--save_plot", "p.png", "--plot_x_dimension", "distances"],
]


def shard_plot_cli(cases):
    """a result saved by evo_ape / evo_rpe is the same with and without the
    plot options (plotting reads the result, it does not edit it): every
    array and statistic bit for bit"""
    from evo.tools import file_interface
    from mc.checks import c15
    acc = Acc()
    wd = tempfile.mkdtemp(dir=os.getcwd(), prefix="c12p_")
    old = os.getcwd()
    os.chdir(wd)
    try:
        c15.write_fixture(wd)
        for tool, k in cases:
            base = ["tum", "ref.txt", "est1.txt", "-a", "--no_warnings"]
            if tool == "rpe":
                base += ["--delta", "2", "--delta_unit", "f", "--all_pairs"]
            out = {}
            for name, extra in (("plain", []), ("plot", PLOT_OPTS[k])):
                z = "r_%s.zip" % name
                if os.path.exists(z):
                    os.remove(z)
                res = cli.run_cli(tool, base + ["--save_results", z] + extra)
                if not res.ok:
                    out[name] = "failed: %s %s" % (res.outcome(), res.exc)
                else:
                    out[name] = file_interface.load_res_file(z)
            acc.count("evaluations")
            acc.count("transitions", 2)
            acc.count("nontrivial")
            acc.outcome("plot-cli:" + tool)
            case = {"tool": tool, "plot_opts": PLOT_OPTS[k]}
            msgs = []
            if isinstance(out["plain"], str) or isinstance(out["plot"], str):
                msgs.append("evo_%s %s" % (tool, [v for v in out.values()
                                                 if isinstance(v, str)]))
            else:
                a, b = out["plain"], out["plot"]
                if set(a.np_arrays) != set(b.np_arrays):
                    msgs.append("arrays differ: %s vs %s" % (
                        sorted(a.np_arrays), sorted(b.np_arrays)))
                else:
                    for key in a.np_arrays:
                        if np.asarray(a.np_arrays[key]).tobytes() != \
                                np.asarray(b.np_arrays[key]).tobytes():
                            msgs.append(
                                "array %s of the saved result differs when "
                                "the run also plots (%s): the values no "
                                "longer belong to the poses of the companion "
                                "arrays" % (key, " ".join(PLOT_OPTS[k])))
                if a.stats != b.stats:
                    msgs.append("statistics differ when the run also plots")
            if msgs:
                acc.violation("plot-cli", "; ".join(msgs[:2]), case,
                              {"kind": "plot-cli"})
    finally:
        os.chdir(old)
    return acc


def run(ctx):
    acc = pmap_acc(ctx, __name__, "shard_stats",
                   [([f], ctx.pick(5, 6), ctx.thorough)
                    for f in range(len(VALS))])
    rel_units = []
    for kind in ("APE", "RPE"):
        for rel in ("translation_part", "rotation_angle_deg",
                    "rotation_angle_rad", "full_transformation",
                    "point_distance", "rotation_part"):
            rel_units.append((kind, rel))
    rel_units.append(("RPE", "point_distance_error_ratio"))
    if not ctx.thorough:
        rel_units = [ru for ru in rel_units
                     if ru[1] not in ("rotation_part", "point_distance")]
    u = pmap_acc(ctx, __name__, "shard_units", [[ru] for ru in rel_units])
    acc.merge(u)
    acc.merge(pmap_acc(ctx, __name__, "shard_assembly",
                       shard(assembly_cases(), 32)))
    acc.merge(pmap_acc(ctx, __name__, "shard_plot_cli",
                       [[(tool, k)] for tool in ("ape", "rpe")
                        for k in range(len(PLOT_OPTS))]))
    acc.counters["states"] = acc.counters["evaluations"]
    acc.rule = (
        "statistics: every array of length 1..%d over %s%s; unit machine: "
        "every path of length <= 3 over the 10 units from the initial unit of "
        "%d (metric, relation) combinations, values = original x exact "
        "factor, refusals leave values+unit bitwise untouched, all statistics "
        "and title/label re-checked after every step; assembly: ape()/rpe() "
        "over relation x unit x delta unit x delta x all_pairs x "
        "pairs_from_reference x timed x {noisy estimate, exact copy of the "
        "reference} (%d cases, fixture with a stand-still "
        "so the ratio relation skips a pair). non-trivial = arrays with "
        "different values / paths with a real conversion / assembled results"
        % (ctx.pick(5, 6), list(VALS), ", 3 arrays of 1e6 values"
           if ctx.thorough else "", len(rel_units), len(assembly_cases())))
    return acc


def replay(part, case):
    if part == "stats":
        if "big" in case:
            return []
        from evo.core import metrics
        m = metrics.APE(metrics.PoseRelation.translation_part)
        m.error = np.array(case["array"])
        return check_stats(m)
    if part == "plot-cli":
        a = shard_plot_cli([(case["tool"], PLOT_OPTS.index(
            list(case["plot_opts"])))])
        return [v["msg"] for v in a.violations]
    if part == "units":
        return run_unit_path(case["kind"], case["relation"], case["path"])[0]
    return run_assembly(case)[0]
