"""
C19 - the settings file stays loadable across crashes and concurrent starts.

E3: the real module body of evo/tools/settings.py and the real writers of
evo/main_config.py run as virtual processes on an in-memory file system.
(i) every primitive boundary and torn write prefix of every operation is a
crash point, followed by a fresh start; (ii) every interleaving of the
file-system steps of concurrently running processes, optionally with a kill.
"""
import json
import os
import types

from mc.engine import vfs, vsched
from mc.engine.core import Acc

FACTORY = "mc.checks.c19.scenario"
HOME = vfs.VROOT + "/home"
EVO = HOME + "/.evo"
SETTINGS = EVO + "/settings.json"
VERSION = EVO + "/assets_version"
OTHER = HOME + "/other.json"

_CODE = None


def _settings_code():
    global _CODE
    if _CODE is None:
        import evo
        path = os.path.join(os.path.dirname(evo.__file__), "tools",
                            "settings.py")
        with open(path) as f:
            _CODE = (compile(f.read(), path, "exec"), path)
    return _CODE


def exec_settings():
    """execute the module body of settings.py in a fresh module object"""
    code, path = _settings_code()
    mod = types.ModuleType("evo.tools.settings")
    mod.__file__ = path
    mod.__package__ = "evo.tools"
    mod.__dict__["print"] = lambda *a, **k: None
    exec(code, mod.__dict__)
    return mod


def _keys_ok(mod):
    from evo.tools.settings_template import DEFAULT_SETTINGS_DICT
    return set(DEFAULT_SETTINGS_DICT) <= set(mod.SETTINGS.keys())


def body_start(proc):
    return _keys_ok(exec_settings())


def body_reset(proc):
    mod = exec_settings()
    ok = _keys_ok(mod)
    mod.reset()
    return ok


def body_reset_subset(proc):
    mod = exec_settings()
    ok = _keys_ok(mod)
    mod.reset(mod.DEFAULT_PATH, ["plot_backend", "plot_split", "nonsense"])
    return ok


def body_set(proc):
    from evo import main_config
    mod = exec_settings()
    ok = _keys_ok(mod)
    main_config.set_config(mod.DEFAULT_PATH,
                           ["plot_backend", "Agg", "plot_split"])
    return ok


def body_set_long(proc):
    from evo import main_config
    mod = exec_settings()
    ok = _keys_ok(mod)
    main_config.set_config(mod.DEFAULT_PATH, ["plot_backend", "B" * 400])
    return ok


def body_set_same_pid(proc):
    """a later process that got the pid of process 0 again"""
    return body_set(proc)


body_set_same_pid.vpid = 1000


def body_merge(proc):
    from evo import main_config
    mod = exec_settings()
    ok = _keys_ok(mod)
    main_config.merge_json_union(mod.DEFAULT_PATH, OTHER, False)
    return ok


BODIES = {
    "start": body_start, "reset": body_reset, "reset_subset":
    body_reset_subset, "set": body_set, "merge": body_merge,
    "set_long": body_set_long, "set_same_pid": body_set_same_pid,
}


def _fs(kind):
    import evo
    from evo.tools.settings_template import DEFAULT_SETTINGS_DICT
    dirs = [HOME]
    files = {}
    marker = b"v1.0.0"
    if kind.startswith("outdated:"):
        marker = kind.split(":", 1)[1].encode()
        kind = "outdated"
    extra = kind == "outdated+extra"
    if extra:
        kind = "outdated"
    if kind in ("init", "outdated"):
        dirs.append(EVO)
        d = dict(DEFAULT_SETTINGS_DICT)
        if kind == "outdated":
            for k in sorted(d)[:5]:
                del d[k]
            if extra:
                for k in range(6):
                    d["dropped_in_a_newer_release_%d" % k] = k
            d["plot_backend"] = "UserChoice"
            files[VERSION] = marker
        else:
            files[VERSION] = evo.__version__.encode()
        files[SETTINGS] = json.dumps(d, indent=4, sort_keys=True).encode()
        files[OTHER] = json.dumps({"plot_backend": "Merged",
                                   "plot_split": True}).encode()
    return files, dirs


def invariant(ex):
    """settings.json is absent or a complete JSON document"""
    msgs = proc_outcomes(ex)
    ino = ex.fs.files.get(SETTINGS)
    if ino is None:
        return msgs
    try:
        d = json.loads(bytes(ino.data).decode("utf-8"))
        if not isinstance(d, dict):
            return msgs + ["settings.json is not a JSON object"]
    except Exception as e:
        return msgs + ["settings.json on disk is not a complete JSON document "
                "(%d bytes: %r...): %s" % (len(ino.data),
                                           bytes(ino.data[:20]), e)]
    return msgs


def proc_outcomes(ex):
    """no started process fails; a finished one saw every default key"""
    msgs = []
    for p in ex.procs:
        if p.status == "failed":
            msgs.append("process %d failed: %s: %s" %
                        (p.idx, p.result[1], p.result[2]))
        elif p.status == "done" and p.result[1] is not True:
            msgs.append("process %d loaded settings without all default keys"
                        % p.idx)
    return msgs


def final(ex):
    return ["process %d did not terminate" % p.idx for p in ex.procs
            if p.status in ("ready", "new")]


def classify(msgs):
    m = " ".join(msgs)
    if "FileExistsError" in m:
        return {"kind": "mkdir-race"}
    if "JSON" in m:
        return {"kind": "non-atomic-write"}
    return {"kind": "other"}


def _tp_quick(L):
    return sorted({1, L // 2, L - 1})


def _tp_all(L):
    return range(1, L)


SCENARIOS = {
    # name: (fs kind, [bodies], late indices)
    "crash:first-start": ("empty", ["start", "start"], {1}),
    "crash:upgrade": ("outdated", ["start", "start"], {1}),
    "crash:upgrade-from-v1.9.0": ("outdated:v1.9.0", ["start", "start"], {1}),
    "crash:upgrade-empty-marker": ("outdated:", ["start", "start"], {1}),
    "crash:reset": ("init", ["reset", "start"], {1}),
    "crash:reset-subset": ("init", ["reset_subset", "start"], {1}),
    "crash:set": ("init", ["set", "start"], {1}),
    "crash:merge": ("init", ["merge", "start"], {1}),
    # a long edit is killed; later a process with the SAME pid edits again
    # (whatever the first one left behind under a pid-derived name is still
    # there), then a fresh start
    "crash:set-long+set-same-pid": ("init", ["set_long", "set_same_pid",
                                             "start"], {1, 2}),
    # an outdated file that lacks default keys but still carries keys that
    # newer releases dropped (as many keys in total as the defaults)
    "crash:upgrade-with-dropped-keys": ("outdated+extra", ["start", "start"],
                                        {1}),
    "race:2-starts-empty": ("empty", ["start", "start"], set()),
    "race:2-starts-outdated": ("outdated", ["start", "start"], set()),
    "race:set+start": ("init", ["set", "start"], set()),
    "race:reset+start": ("init", ["reset", "start"], set()),
    "race:2-starts-empty+kill": ("empty", ["start", "start", "start"], {2}),
    "race:3-starts-empty": ("empty", ["start", "start", "start"], set()),
}


def scenario(name):
    kind, bodies, late = SCENARIOS[name]
    files, dirs = _fs(kind)
    return {
        "spec": (files, dirs, [BODIES[b] for b in bodies]),
        "late": late,
        "invariant": invariant,
        "final": final,
        "classify": classify,
        "tear_points": {"quick": _tp_quick, "all": _tp_all},
    }


def run(ctx):
    acc = Acc()
    plan = [
        ("crash:first-start", 1), ("crash:upgrade", 1),
        ("crash:upgrade-from-v1.9.0", 1), ("crash:upgrade-empty-marker", 1),
        ("crash:reset", 1),
        ("crash:reset-subset", 1), ("crash:set", 1), ("crash:merge", 1),
        ("crash:set-long+set-same-pid", 1),
        ("crash:upgrade-with-dropped-keys", 1),
        ("race:2-starts-empty", 0), ("race:2-starts-outdated", 0),
        ("race:set+start", 0), ("race:reset+start", 0),
    ]
    if ctx.thorough:
        plan += [("race:2-starts-empty+kill", 1), ("race:3-starts-empty", 0)]
    else:
        plan += [("race:3-starts-empty", 0)]
    tear = "all" if ctx.thorough else "quick"
    # torn writes at every byte offset only for the sequential crash
    # scenarios; in races the kill positions are {1, L/2, L-1}
    tear_of = lambda name: tear if name.startswith("crash:") else "quick"
    per = {}
    only = os.environ.get("VERIF_C19_ONLY")
    if only:
        plan = [(n, k) for n, k in plan if n in only.split(",")]
    import time
    for name, kills in plan:
        t0 = time.time()
        cap = None
        pb = None
        if name == "race:3-starts-empty":
            # three processes: iterative context bounding (all schedules
            # with at most pb preemptions), complete within that bound
            pb = 2 if ctx.thorough else 1
        a = vsched.explore(ctx, FACTORY, name, max_kills=kills,
                           tear_mode=tear_of(name), max_states=cap,
                           preemption_bound=pb)
        if pb is not None:
            acc.bounds["preemption_bound:" + name] = pb
        per[name] = {"states": a.counters["states"],
                     "wall_s": round(time.time() - t0, 1),
                     "transitions": a.counters["transitions"],
                     "terminal": a.counters.get("terminal_executions", 0)}
        st = acc.counters.get("states", 0) + a.counters["states"]
        acc.merge(a)
        acc.counters["states"] = st
    acc.notes["per_scenario"] = per
    acc.counters["evaluations"] = acc.counters["transitions"]
    acc.counters["nontrivial"] = acc.counters.get("terminal_executions", 0)
    acc.rule = (
        "virtual processes run the real settings.py module body / reset / "
        "set_config / merge_json_union on an in-memory FS; scenarios: %s; "
        "crash scenarios: one kill at every primitive boundary and torn "
        "write prefix (%s) followed by a fresh start, and the fresh start "
        "after the completed operation; race scenarios: every "
        "interleaving of file-system primitives (state-hash pruned BFS); "
        "three racing starts: every schedule with at most %d preemptions. "
        "non-trivial = terminal executions (all processes finished or "
        "killed) on which the per-process outcome was judged" %
        (", ".join(n for n, _ in plan),
         "every byte offset" if ctx.thorough else "1, L/2, L-1",
         2 if ctx.thorough else 1))
    acc.assumptions = [
        "crash = process kill; unflushed user-space buffers are lost, "
        "completed raw writes persist (no power-loss / block reordering)",
        "primitives are atomic: stat, mkdir, open(O_CREAT|O_TRUNC), each raw "
        "write, truncate, rename/replace, unlink; POSIX inode semantics",
        "time.sleep() is a scheduling point and takes at least 1 s of the "
        "sleeping process's virtual clock (time.time / time.monotonic read "
        "that clock): polling loops with a timeout end after a few "
        "iterations - one admissible timing among many",
        "a state is (file system content, per-process observation history, "
        "pending primitive); a process's future depends on nothing else",
    ]
    return acc


def replay(part, case):
    return vsched.replay_check(FACTORY, case["scenario"], case["schedule"])
