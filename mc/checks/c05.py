"""
C05 - time association pairs each pose with its nearest counterpart.

E1: all pairs (A, B) of non-empty subsets of a timestamp grid x jitter x
max_diff x offset x epoch, on the real sync.associate_trajectories and
sync.matching_time_indices.  The oracle is a predicate on the output.
"""
import itertools

import numpy as np

from mc import common
from mc.engine.core import Acc, pmap_acc, shard
from mc.refmodel import geom

STEP = 0.25
MAX_DIFFS = (0.0, 0.25, 0.5, 1.0)
# (0.3: an offset that is not a binary fraction - (t + 0.3) - 0.3 is not t)
OFFSETS = (0.0, 0.25, -0.25, 1.0, -1.0, 0.3)
EPOCHS = (0.0, 1.5e9)
# 1: +0.125 on odd slots of B; 2: +2^-8 on odd slots of B (closer than any
# default threshold: only max_diff itself may decide whether they pair)
JITTERS = (0, 1, 2)
JIT = {1: 0.125, 2: 2.0**-8}
MAX_DIFFS_FINE = (0.0, 2.0**-9, 2.0**-8, 0.25)


def _stamps(mask, nslots, epoch, jitter=0):
    out = []
    for k in range(nslots):
        if mask >> k & 1:
            t = epoch + k * STEP
            if jitter and k % 2:
                t += JIT[jitter]
            out.append(t)
    return out


def _tags(which, slots):
    """unique pose per (trajectory, slot)"""
    Rs, ps = [], []
    for k in slots:
        a = 0.1 * (k + 1) + (0.05 if which == 2 else 0.0)
        Rs.append(geom.rodrigues((0, 0, 1), a))
        base = 100.0 if which == 2 else 0.0
        ps.append(np.array([base + k + 1, 10.0 * (k + 1) + 0.5, -(k + 1.0)]))
    return Rs, ps


def _slots(mask, nslots):
    return [k for k in range(nslots) if mask >> k & 1]


# ------------------------------------------------------------------- oracle
def nearest_sets(driver, other_shifted):
    """for each driver stamp: (set of indices of nearest counterparts, dist)"""
    out = []
    for s in driver:
        d = [abs(c - s) for c in other_shifted]
        m = min(d)
        out.append(({i for i, v in enumerate(d) if v == m}, m))
    return out


def check_pairs(t1, t2, offset, max_diff, pairs, drivers):
    """
    pairs: list of (i1, i2) index pairs into t1 / t2 as produced.
    drivers: which inputs may be regarded as 'the trajectory with fewer poses'
    Returns None if the predicate holds for one admissible driver, else the
    list of reasons (for the first driver).
    """
    reasons_all = []
    t2s = [t + offset for t in t2]
    for drv in drivers:
        reasons = []
        if drv == 1:
            near = nearest_sets(t1, t2s)
            dp = [(a, b) for a, b in pairs]
        else:
            t1s = [t - offset for t in t1]
            near = nearest_sets(t2, t1s)
            dp = [(b, a) for a, b in pairs]
        used_d = [a for a, _ in dp]
        used_o = [b for _, b in dp]
        if len(set(used_d)) != len(used_d) or len(set(used_o)) != len(used_o):
            reasons.append("a pose is used more than once: pairs=%s" % pairs)
        for a, b in dp:
            cands, dist = near[a]
            if b not in cands:
                reasons.append(
                    "pair (%d,%d) is not a nearest-counterpart pair" % (a, b))
            elif dist > max_diff:
                reasons.append("pair (%d,%d) exceeds max_diff" % (a, b))
        # required pairs: unique nearest counterpart within max_diff that is
        # not among the nearest counterparts of any other driver pose
        for a, (cands, dist) in enumerate(near):
            if dist > max_diff or len(cands) != 1:
                continue
            c = next(iter(cands))
            contested = any(c in near[o][0] for o in range(len(near))
                            if o != a)
            if contested:
                continue
            if (a, c) not in dp:
                reasons.append(
                    "pose %d of the driving trajectory has the uncontested "
                    "nearest counterpart %d within max_diff but is not paired"
                    % (a, c))
        if not reasons:
            return None
        reasons_all.append(reasons)
    return reasons_all[0]


def admits_pair(t1, t2, offset, max_diff):
    t2s = [t + offset for t in t2]
    return any(d <= max_diff for _, d in nearest_sets(t1, t2s))


# -------------------------------------------------------------- single case
def run_case(case, trajs=None):
    """returns (list of violation strings, info dict)"""
    from evo.core import sync
    t1, t2 = case["t1"], case["t2"]
    offset, max_diff, mode = case["offset"], case["max_diff"], case["mode"]
    msgs = []
    info = {}
    if trajs is None:
        R1, p1 = _tags(1, case["slots1"])
        R2, p2 = _tags(2, case["slots2"])
        tr1 = common.make_traj(R1, p1, t1, mode)
        tr2 = common.make_traj(R2, p2, t2, mode)
        if case.get("same"):
            tr2 = tr1
    else:
        tr1, tr2 = trajs
    snap1, snap2 = common.snapshot(tr1), common.snapshot(tr2)
    raw1, raw2 = common.raw_state(tr1), common.raw_state(tr2)
    n1, n2 = len(t1), len(t2)
    drivers = [1] if n1 < n2 else ([2] if n2 < n1 else [2, 1])
    admits = admits_pair(t1, t2, offset, max_diff)
    try:
        o1, o2 = sync.associate_trajectories(tr1, tr2, max_diff, offset)
        raised = None
    except sync.SyncException as e:
        raised = e
    except Exception as e:  # neither an association nor the documented error
        info["outcome"] = "crashed"
        return ["associate_trajectories raised %s (%s) - neither pairs nor "
                "SyncException (%s)" %
                (type(e).__name__, e, "something matches" if admits else
                 "nothing can match")], info
    if common.snapshot(tr1) != snap1 or common.snapshot(tr2) != snap2 \
            or common.raw_state(tr1) != raw1 or common.raw_state(tr2) != raw2:
        msgs.append("associate_trajectories modified an input trajectory")
        info["mutated"] = True
    if raised is not None:
        info["outcome"] = "refused"
        if admits:
            msgs.append("SyncException although a pose has a nearest "
                        "counterpart within max_diff")
    else:
        info["outcome"] = "paired"
        if not admits:
            msgs.append("no SyncException although nothing can match")
        if o1 is tr1 or o2 is tr2:
            msgs.append("output object is the input object (not a copy)")
        if o1 is o2:
            msgs.append("both outputs are one and the same object")
        v1, v2 = common.views(o1), common.views(o2)
        if not (v1["n"] == v2["n"] == len(v1["stamps"]) == len(v2["stamps"])
                == len(v1["xyz"]) == len(v2["xyz"]) == len(v1["quat"]) == len(
                    v2["quat"]) == len(v1["poses"]) == len(v2["poses"])):
            msgs.append("outputs are not equally long / inconsistent views")
        else:
            in1, in2 = common.views(tr1), common.views(tr2)
            pairs = []
            ok_copy = True
            for k in range(v1["n"]):
                idx = []
                for v, vin, tin in ((v1, in1, t1), (v2, in2, t2)):
                    ts = float(v["stamps"][k])
                    if ts not in tin:
                        ok_copy = False
                        msgs.append("output timestamp %r is not an input "
                                    "timestamp" % ts)
                        break
                    i = tin.index(ts)
                    idx.append(i)
                    if not (common.same_bits(v["xyz"][k], vin["xyz"][i])
                            and common.same_bits(v["quat"][k], vin["quat"][i])
                            and common.same_bits(v["poses"][k],
                                                 vin["poses"][i])):
                        ok_copy = False
                        msgs.append("output pose %d is not an unmodified copy "
                                    "of the input pose with its timestamp" % k)
                if len(idx) == 2:
                    pairs.append(tuple(idx))
            info["pairs"] = pairs
            if ok_copy:
                for v, name in ((v1, "first"), (v2, "second")):
                    s = v["stamps"]
                    if len(s) > 1 and not np.all(s[1:] > s[:-1]):
                        msgs.append("%s output not in increasing time order: "
                                    "%s" % (name, s.tolist()))
                for a, b in pairs:
                    if abs(t1[a] - (t2[b] + offset)) > max_diff:
                        msgs.append("|t1 - (t2+offset)| > max_diff for pair "
                                    "(%d,%d)" % (a, b))
                r = check_pairs(t1, t2, offset, max_diff, pairs, drivers)
                if r:
                    msgs.extend(r)
                if not pairs:
                    msgs.append("empty association returned without error")
    # matching_time_indices directly (first argument drives the search)
    a1 = np.array(t1, dtype=float)
    a2 = np.array(t2, dtype=float)
    b1, b2 = a1.tobytes(), a2.tobytes()
    m1, m2 = sync.matching_time_indices(a1, a2, max_diff, offset)
    if a1.tobytes() != b1 or a2.tobytes() != b2:
        msgs.append("matching_time_indices modified its input arrays")
    if len(m1) != len(m2):
        msgs.append("matching_time_indices returned lists of unequal length")
    else:
        mp = list(zip([int(i) for i in m1], [int(i) for i in m2]))
        info["mti"] = mp
        r = check_pairs(t1, t2, offset, max_diff, mp, [1])
        if r:
            msgs.extend("matching_time_indices: " + x for x in r)
        if any(b[0] <= a[0] for a, b in zip(mp, mp[1:])):
            msgs.append("matching_time_indices: first index list not "
                        "increasing")
    return msgs, info


def _cls(msgs):
    m = " ".join(msgs)
    if "more than once" in m or "increasing" in m:
        return {"kind": "counterpart-used-twice"}
    if "modified" in m:
        return {"kind": "input-modified"}
    if "neither pairs nor" in m:
        return {"kind": "other-exception"}
    return {"kind": "other"}


# --------------------------------------------------------------------- shard
def shard_run(arg):
    nslots, masks1, modes, tier = arg
    acc = Acc()
    for m1 in masks1:
        slots1 = _slots(m1, nslots)
        R1, p1 = _tags(1, slots1)
        for epoch in EPOCHS:
            t1 = _stamps(m1, nslots, epoch)
            for mode in modes:
                tr1 = common.make_traj(R1, p1, t1, mode)
                for m2 in range(1, 2**nslots):
                    slots2 = _slots(m2, nslots)
                    R2, p2 = _tags(2, slots2)
                    for jit in JITTERS:
                        t2 = _stamps(m2, nslots, epoch, jit)
                        tr2 = common.make_traj(R2, p2, t2, mode)
                        for max_diff in (MAX_DIFFS if jit != 2 else
                                         MAX_DIFFS_FINE):
                            for offset in OFFSETS:
                                case = {
                                    "t1": t1, "t2": t2, "slots1": slots1,
                                    "slots2": slots2, "offset": offset,
                                    "max_diff": max_diff, "mode": mode
                                }
                                msgs, info = run_case(case, (tr1, tr2))
                                if m2 == m1 and jit == 0 and not msgs:
                                    # the very same object as both arguments
                                    m_same, _ = run_case(
                                        dict(case, same=True), (tr1, tr1))
                                    acc.count("same_object_cases")
                                    acc.count("transitions", 2)
                                    if m_same:
                                        acc.violation(
                                            "assoc", "same object passed "
                                            "twice: " + "; ".join(m_same[:3]),
                                            dict(case, same=True),
                                            {"kind": "same-object"})
                                acc.count("evaluations")
                                acc.count("transitions", 2)
                                acc.outcome(info.get("outcome", "?"))
                                pairs = info.get("pairs")
                                if pairs is not None:
                                    acc.outcome("npairs=%d" % len(pairs))
                                # non-trivial: some counterpart is contested or
                                # some candidate lies exactly at max_diff
                                if _nontrivial(t1, t2, offset, max_diff):
                                    acc.count("nontrivial")
                                if msgs:
                                    acc.violation("assoc", "; ".join(msgs[:3]),
                                                  case, _cls(msgs))
                                    if info.get("mutated"):
                                        tr1 = common.make_traj(R1, p1, t1, mode)
                                        tr2 = common.make_traj(R2, p2, t2, mode)
                                elif acc.counters["evaluations"] % 200003 == 1:
                                    acc.sample({"case": case, "result": info})
    return acc


def _nontrivial(t1, t2, offset, max_diff):
    t2s = [t + offset for t in t2]
    near = nearest_sets(t1, t2s) if len(t1) <= len(t2) else nearest_sets(
        t2, [t - offset for t in t1])
    seen = set()
    for cands, d in near:
        if d == max_diff and max_diff > 0:
            return True
        if d <= max_diff:
            if cands & seen:
                return True
            seen |= cands
    return False


def shard_subsets(arg):
    """one trajectory has every slot of a larger grid, the other every subset:
    the matched index list of the longer trajectory then runs through all
    index patterns (regular, almost regular, irregular)"""
    nslots, masks = arg
    acc = Acc()
    full = 2**nslots - 1
    for m in masks:
        for jit in JITTERS:
            for swap in (False, True):
                for mode in ("quat+read", "se3"):
                    ta = _stamps(m, nslots, 0.0)
                    tb = _stamps(full, nslots, 0.0, jit)
                    sa, sb = _slots(m, nslots), _slots(full, nslots)
                    if swap:
                        ta, tb, sa, sb = tb, ta, sb, sa
                    case = {"t1": ta, "t2": tb, "slots1": sa, "slots2": sb,
                            "offset": 0.0, "max_diff": 0.25, "mode": mode}
                    msgs, info = run_case(case)
                    acc.count("evaluations")
                    acc.count("transitions", 2)
                    acc.outcome(info.get("outcome", "?"))
                    if msgs:
                        acc.violation("assoc", "; ".join(msgs[:3]), case,
                                      _cls(msgs))
    return acc


def large_cases(thorough):
    """a few structured large instances (different rates, jitter, gaps,
    disjoint ranges, epoch offsets); all stamps are multiples of 2^-10"""
    q = 2.0**-10
    cases = []
    # (2200 x 2100 > 2^22 pairs of stamps: blocked / chunked searches)
    sizes = [(50, 60), (200, 201), (333, 100), (2200, 2100)] + (
        [(1000, 1200), (5000, 4000)] if thorough else [])
    for n1, n2 in sizes:
        for epoch in (0.0, 1.5e9):
            t1 = [epoch + 0.1015625 * k for k in range(n1)]
            # second trajectory: other rate, deterministic jitter, a gap
            t2, t = [], epoch + 0.03125
            for k in range(n2):
                t += 0.09375 + q * ((k * 37) % 13)
                if k == n2 // 2:
                    t += 3.0
                t2.append(t)
            for max_diff, offset in ((0.01, 0.0), (0.05, 0.0), (0.05, -0.03125),
                                     (0.5, 1.0), (0.001, 0.0)):
                cases.append({"t1": t1, "t2": t2, "slots1": list(range(n1)),
                              "slots2": list(range(n2)), "offset": offset,
                              "max_diff": max_diff, "mode": "quat+read"})
    # the trajectory with fewer poses is the denser one (a short, fast
    # recording against a long, slow one): every counterpart is contested by
    # 3-4 consecutive poses, at whatever index a blocked search may cut
    for phase in (0, 1, 2):
        t1 = [1.0 * k for k in range(2200)]
        t2 = [100.0 + 0.28125 * (k + phase) for k in range(2100)]
        cases.append({"t1": t1, "t2": t2, "slots1": list(range(2200)),
                      "slots2": list(range(2100)), "offset": 0.0,
                      "max_diff": 0.5, "mode": "quat"})
    return cases


def shard_large(arg):
    acc = Acc()
    for case in arg:
        msgs, info = run_case(case)
        acc.count("evaluations")
        acc.count("transitions", 2)
        acc.count("large_instances")
        acc.outcome("large:" + info.get("outcome", "?"))
        if msgs:
            small = dict(case)
            acc.violation("assoc-large", "n=(%d,%d) max_diff=%g offset=%g: %s"
                          % (len(case["t1"]), len(case["t2"]),
                             case["max_diff"], case["offset"],
                             "; ".join(msgs[:3])), small, _cls(msgs))
    return acc


def run(ctx):
    nslots = ctx.pick(6, 8)
    masks = list(range(1, 2**nslots))
    modes = ("quat+read", ) if not ctx.thorough else ("quat", "quat+read")
    acc = pmap_acc(ctx, __name__, "shard_run",
                   [(nslots, s, modes, ctx.tier) for s in shard(masks, 64)])
    # storage-mode dimension, exhaustively on a smaller grid
    small = ctx.pick(4, 5)
    acc.merge(
        pmap_acc(ctx, __name__, "shard_run",
                 [(small, s, ("se3", "quat", "se3+read", "quat+read"), ctx.tier)
                  for s in shard(range(1, 2**small), 16)]))
    for ns in (7, 9) + ((10, ) if ctx.thorough else ()):
        acc.merge(pmap_acc(ctx, __name__, "shard_subsets",
                           [(ns, s) for s in shard(range(1, 2**ns), 32)]))
    acc.merge(pmap_acc(ctx, __name__, "shard_large",
                       [[c] for c in large_cases(ctx.thorough)]))
    # F3's published witness, literally (off-grid stamps)
    case = {
        "t1": [0.0, 0.004], "t2": [0.002, 10.0, 20.0], "slots1": [0, 1],
        "slots2": [0, 1, 2], "offset": 0.0, "max_diff": 0.01, "mode": "quat"
    }
    msgs, info = run_case(case)
    acc.count("evaluations")
    acc.count("transitions", 2)
    if msgs:
        acc.violation("assoc", "; ".join(msgs[:3]), case, _cls(msgs))
    acc.counters["states"] = acc.counters["evaluations"]
    acc.rule = (
        "all pairs (A,B) of non-empty subsets of a %d-slot timestamp grid "
        "(spacing 0.25) x B-jitter {none,+0.125,+2^-8 on odd slots} x max_diff %s "
        "(with the 2^-8 jitter: 0, 2^-9, 2^-8, 0.25) x "
        "offset %s x epoch %s (trajectories built from positions+quaternions"
        " with all cached views populated; thorough: also un-cached), plus "
        "{matrices, positions+quaternions} x {nothing cached, all views "
        "cached} on the %d-slot grid; "
        "non-trivial = a counterpart is contested by two poses or a nearest "
        "counterpart lies exactly at max_diff" %
        (nslots, MAX_DIFFS, OFFSETS, EPOCHS, small))
    acc.bounds = {"slots": nslots, "slots_storage_modes": small}
    acc.assumptions = [
        "timestamps and thresholds are multiples of 2^-9 so every comparison is "
        "exact in float64, also at epoch 1.5e9",
        "a state is one enumerated input configuration; a transition is one "
        "call of the real function (associate_trajectories + "
        "matching_time_indices per configuration)"
    ]
    return acc


def replay(part, case):
    msgs, _ = run_case(case)
    return msgs
