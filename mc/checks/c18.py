"""
C18 - config edits keep keys, types and user values; generated configs have
the same effect as their arguments.

Part A (E2): BFS over histories of set / reset / merge / upgrade on the real
functions, state = the settings JSON on disk.
Part B (E4): every single typed option and every pair of options of the
evo_ape / evo_rpe / evo_traj parsers: direct parsing vs `-c generated.json`;
namespace differences are candidates that are decided by executing both.
Part C: -c priority and "for that run only".
"""
import argparse
import copy
import itertools
import json
import os
import tempfile

import numpy as np

from mc import common
from mc.engine import cli, hist
from mc.engine.core import Acc, pmap_acc, shard

FACTORY = "mc.checks.c18.SettingsMachine"

KEYS = {
    "bool": "plot_split", "list": "plot_statistics", "int":
    "ros_map_unknown_cell_value", "float": "plot_fontscale", "str":
    "plot_backend", "palette": "plot_seaborn_palette", "list2":
    "plot_figsize", "bool2": "plot_usetex",
}
VALUE_TOKENS = [[], ["true"], ["False"], ["5"], ["-0.5"], ["2.0"], ["foo"],
                ["[]"], ["none"], ["3", "4"], ["foo", "bar"], ["1e3"],
                ["-1."], ["2.5e-1", "7"], ["0"], ["0.0"]]


def _ops():
    ops = []
    for kind in ("bool", "list", "int", "float", "str", "palette"):
        for vt in VALUE_TOKENS:
            ops.append(("set", [KEYS[kind]] + vt))
    ops.append(("set", ["unknown_key", "5"]))
    ops.append(("set", ["unknown_key", KEYS["bool"]]))
    ops.append(("set", [KEYS["bool"], KEYS["bool2"], "false",
                        KEYS["float"], "1.5"]))
    ops.append(("set", [KEYS["list2"], "12", "8", KEYS["str"], "Qt5Agg"]))
    ops.append(("reset", [KEYS["bool"], KEYS["list"]]))
    ops.append(("reset", [KEYS["float"], "not_a_key"]))
    ops.append(("reset_all", None))
    ops.append(("merge", ("hard", {KEYS["str"]: "TkAgg", KEYS["bool"]: True})))
    ops.append(("merge", ("soft", {KEYS["str"]: "TkAgg", KEYS["int"]: 1})))
    # upgrades from several version markers (any marker different from the
    # current version means "outdated": older, lexicographically larger,
    # empty, garbage, even a newer one)
    for ver in ("v0.0.1", "v1.9.0", "v1.30.12", "", "garbage", "v9.0.0"):
        ops.append(("upgrade", ([KEYS["bool"], KEYS["float"], KEYS["list"]],
                                ver)))
    ops.append(("upgrade", ([], "v1.4.2")))
    return ops


OPS = _ops()


_PRISTINE = None


def pristine_defaults():
    """the package defaults as they are when the module is first imported
    (captured once, before any operation has run in this process tree)"""
    global _PRISTINE
    if _PRISTINE is None:
        from evo.tools.settings_template import DEFAULT_SETTINGS_DICT
        _PRISTINE = copy.deepcopy(DEFAULT_SETTINGS_DICT)
    return _PRISTINE


pristine_defaults()


def defaults_polluted():
    """True (and repaired) if an operation modified the module-level
    defaults - every later reset in the same process would then be wrong"""
    from evo.tools.settings_template import DEFAULT_SETTINGS_DICT
    if DEFAULT_SETTINGS_DICT != _PRISTINE:
        DEFAULT_SETTINGS_DICT.clear()
        DEFAULT_SETTINGS_DICT.update(copy.deepcopy(_PRISTINE))
        return True
    return False


class SState(object):
    def __init__(self, d):
        self.d = d


def convert(tok):
    try:
        f = float(tok)
    except ValueError:
        return tok
    return int(f) if int(f) == f else f


class SettingsMachine(object):
    n_inits = 2

    def __init__(self):
        self._pid = None

    def _paths(self):
        # the system object is inherited by forked workers: every process
        # needs its own files
        if self._pid != os.getpid():
            self._pid = os.getpid()
            self.dir = tempfile.mkdtemp(dir=os.getcwd(), prefix="c18_")
            self.path = os.path.join(self.dir, "settings.json")
            self.vpath = os.path.join(self.dir, "assets_version")
            self.other = os.path.join(self.dir, "other.json")

    def defaults(self):
        return copy.deepcopy(pristine_defaults())

    def initial(self, i):
        d = self.defaults()
        if i == 1:
            d[KEYS["str"]] = "UserBackend"
            d[KEYS["bool"]] = True
            d[KEYS["list"]] = ["rmse"]
            d[KEYS["float"]] = 3
        return SState(d)

    def enabled(self, st):
        return range(len(OPS))

    def describe(self, op):
        name, arg = OPS[op]
        return "%s %s" % (name, arg)

    def key(self, st):
        return json.dumps(st.d, sort_keys=True).encode()

    def classify(self, h, msgs):
        return {"kind": "settings-edit"}

    def _write(self, d):
        with open(self.path, "w") as f:
            f.write(json.dumps(d, indent=4, sort_keys=True))

    def _read(self):
        with open(self.path) as f:
            return json.load(f)

    def step(self, st, op, check=True):
        import evo
        from evo import main_config
        from evo.tools import settings
        name, arg = OPS[op]
        self._paths()
        before = copy.deepcopy(st.d)
        self._write(before)
        defaults = self.defaults()
        msgs = []
        try:
            if name == "set":
                main_config.set_config(self.path, list(arg))
            elif name == "reset":
                settings.reset(type(settings.DEFAULT_PATH)(self.path),
                               parameter_subset=list(arg))
            elif name == "reset_all":
                settings.reset(type(settings.DEFAULT_PATH)(self.path))
            elif name == "merge":
                mode, other = arg
                with open(self.other, "w") as f:
                    json.dump(other, f)
                main_config.merge_json_union(self.path, self.other,
                                             soft=mode == "soft")
            elif name == "upgrade":
                arg, version = arg
                old = {k: v for k, v in before.items() if k not in arg}
                self._write(old)
                with open(self.vpath, "w") as f:
                    f.write(version)
                saved = (settings.DEFAULT_PATH,
                         settings.USER_ASSETS_VERSION_PATH)
                settings.DEFAULT_PATH = type(saved[0])(self.path)
                settings.USER_ASSETS_VERSION_PATH = type(saved[0])(self.vpath)
                try:
                    import contextlib
                    import io
                    with contextlib.redirect_stdout(io.StringIO()):
                        settings.update_if_outdated()
                finally:
                    settings.DEFAULT_PATH, \
                        settings.USER_ASSETS_VERSION_PATH = saved
        except Exception as e:
            # an edit that raises is a refused transition: the property does
            # not forbid refusing a token list, but the file must be untouched
            after = self._read()
            if after != before:
                return st, ["%s raised %s and left a modified file" %
                            (self.describe(op), type(e).__name__)], name
            if name == "set" and KEYS["palette"] not in arg and all(
                    is_number(t) or t in before for t in arg):
                # ... but numeric tokens for existing keys must be converted
                return st, ["%s raised %s (%s): numeric tokens must be "
                            "converted to numbers" %
                            (self.describe(op), type(e).__name__, e)], name
            if name in ("reset", "reset_all", "merge", "upgrade"):
                return st, ["%s raised %s (%s)" % (self.describe(op),
                                                   type(e).__name__, e)], name
            return st, [], name + "/raised:" + type(e).__name__
        after = self._read()
        st.d = after
        polluted = defaults_polluted()
        if not check:
            return st, [], name
        if polluted:
            msgs.append("%s modified the package's default settings in "
                        "memory (a later reset in the same process restores "
                        "wrong values)" % self.describe(op))
        # ---- invariants from the property
        if set(after) != set(before) and name != "upgrade":
            msgs.append("key set changed: +%s -%s" %
                        (sorted(set(after) - set(before)),
                         sorted(set(before) - set(after))))
        if name == "set":
            named = [t for t in arg if t in before]
            for k in before:
                if k not in named and k in after and after[k] != before[k]:
                    msgs.append("key %s changed although it was not named" %
                                k)
            # per named key: documented conversion
            toks = list(arg)
            for i, t in enumerate(toks):
                if t not in before:
                    continue
                vals = []
                for v in toks[i + 1:]:
                    if v in before:
                        break
                    vals.append(v)
                if t in toks[i + 1:] and toks[i + 1:].index(t) >= 0:
                    pass
                exp = self._expected(before[t], vals, t)
                if exp is not _ANY and (after[t] != exp or
                                        type(after[t]) is not type(exp)):
                    msgs.append("set %s %s: value %r (%s), expected %r (%s)" %
                                (t, vals, after[t], type(after[t]).__name__,
                                 exp, type(exp).__name__))
                if isinstance(before[t], bool) and not isinstance(after[t],
                                                                  bool):
                    msgs.append("boolean parameter %s became %r" %
                                (t, after[t]))
                if isinstance(before[t], list) and t != KEYS["palette"] \
                        and not isinstance(after[t], list):
                    msgs.append("list parameter %s became %r" % (t, after[t]))
        elif name == "reset":
            for k in before:
                if k in arg:
                    if after.get(k) != defaults[k]:
                        msgs.append("reset did not restore %s" % k)
                elif after.get(k) != before[k]:
                    msgs.append("reset of %s changed %s" % (arg, k))
        elif name == "reset_all":
            if after != defaults:
                msgs.append("reset all did not restore the defaults")
        elif name == "merge":
            mode, other = arg
            for k in before:
                if k in other and mode == "hard":
                    if after[k] != other[k]:
                        msgs.append("hard merge did not take %s" % k)
                elif after[k] != before[k]:
                    msgs.append("%s merge changed %s" % (mode, k))
        elif name == "upgrade":
            if set(after) != set(defaults) | set(before):
                msgs.append("upgrade: key set %s" %
                            sorted(set(defaults) ^ set(after)))
            for k in before:
                if k in arg:
                    if after.get(k) != defaults.get(k):
                        msgs.append("upgrade did not add the default of the "
                                    "missing key %s" % k)
                elif after.get(k) != before[k]:
                    msgs.append("upgrade changed the user's value of %s" % k)
            with open(self.vpath) as f:
                if f.read() != evo.__version__:
                    msgs.append("upgrade did not record the new version")
        return st, msgs, name

    def _expected(self, old, vals, key):
        if key == KEYS["palette"]:
            return _ANY  # palette names are validated by seaborn
        if isinstance(old, bool):
            if not vals:
                return not old
            last = vals[-1].lower()
            if last == "true":
                return True
            if last == "false":
                return False
            return not old
        if not vals:
            return old
        if isinstance(old, list):
            if vals[0].lower() in ("[]", "none"):
                return []
            return [convert(v) for v in vals]
        if len(vals) > 1:
            return _ANY  # several tokens for a scalar parameter: unspecified
        return convert(vals[0])


_ANY = object()


def is_number(tok):
    try:
        float(tok)
        return True
    except ValueError:
        return False


# ------------------------------------------------------------------ Part B
def typed_options(tool):
    """introspect the real parser: optional actions of the 'tum' sub-parser"""
    import importlib
    pm = importlib.import_module("evo.main_%s_parser" % tool)
    parser = pm.parser()
    sub = [a for a in parser._actions
           if isinstance(a, argparse._SubParsersAction)][0]
    tum = sub.choices["tum"]
    skip = {"help", "config", "plot", "save_plot", "serialize_plot",
            "save_results", "logfile", "ros_map_yaml", "map_tile",
            "save_as_bag", "save_as_bag2", "save_table", "debug", "verbose",
            "save_as_tum", "save_as_kitti", "ref", "transform_left",
            "transform_right", "plot_full_ref", "silent", "no_warnings"}
    opts = []
    for a in tum._actions:
        if not a.option_strings or a.dest in skip:
            continue
        longs = [s for s in a.option_strings if s.startswith("--")]
        if not longs:
            continue
        name = longs[0]
        if isinstance(a, argparse._StoreTrueAction):
            vals = [[]]
        elif a.choices:
            vals = [[str(c)] for c in list(a.choices)[:3]]
        elif a.nargs == 2:
            vals = [["0.5", "30"], ["0.25", "45.5"]]
        elif a.type is int:
            vals = [["3"], ["500"], ["+4"]]
        elif a.type is float:
            vals = [["0.5"], ["-0.5"], ["2"], ["2.0"], ["-.5"], ["-1e-3"],
                    [".25"], ["-2"]]
        else:
            continue
        opts.append((name, a.dest, vals))
        # every further long spelling of the same option is an argument list
        # of its own (the generated key is derived from the spelling)
        for alias in longs[1:]:
            opts.append((alias, a.dest, vals[:2]))
    return opts


def _ns_equal(a, b):
    da, db = dict(vars(a)), dict(vars(b))
    da.pop("config", None)
    db.pop("config", None)
    if da.keys() != db.keys():
        return False
    for k in da:
        va, vb = da[k], db[k]
        if type(va) is not type(vb) or va != vb:
            return False
    return True


def _effect(tool, args, wd, tag):
    """run the tool with the given namespace; -> comparable effect"""
    import importlib
    from evo import entry_points  # noqa
    out = os.path.join(wd, "out_%s" % tag)
    os.makedirs(out, exist_ok=True)
    old = os.getcwd()
    args = copy.deepcopy(args)
    if tool == "traj":
        args.save_as_tum = True
    else:
        args.save_results = os.path.join(out, "res.zip")
    args.no_warnings = True
    args.silent = True
    os.chdir(out)
    try:
        res = _run_ns(tool, args)
    finally:
        os.chdir(old)
    eff = {"outcome": res}
    for f in sorted(os.listdir(out)):
        p = os.path.join(out, f)
        if f.endswith(".zip"):
            from evo.tools import file_interface
            r = file_interface.load_res_file(p)
            eff[f] = (json.dumps(r.stats, sort_keys=True), r.info.get("title"),
                      sorted((k, v.tobytes()) for k, v in r.np_arrays.items()))
        else:
            with open(p, "rb") as fh:
                eff[f] = fh.read()
        os.remove(p)
    return eff


def _run_ns(tool, args):
    import builtins
    import importlib
    import io
    import sys
    from evo.tools.settings import SETTINGS
    main_module = importlib.import_module("evo.main_%s" % tool)
    saved = dict(SETTINGS)
    old_out = sys.stdout
    sys.stdout = io.StringIO()
    try:
        try:
            main_module.run(args)
            return "ok"
        except SystemExit as e:
            return "exit:%s" % e.code
        except Exception as e:
            return "exc:%s" % type(e).__name__
    finally:
        sys.stdout = old_out
        cli._reset_logging()
        for k, v in saved.items():
            dict.__setitem__(SETTINGS, k, v)


def judge_generate(tool, optlist, wd):
    """optlist: list of tokens. -> (msgs, kind)"""
    from evo import entry_points, main_config
    base = ["tum", os.path.join(wd, "ref.txt"), os.path.join(wd, "est1.txt")] \
        if tool != "traj" else ["tum", os.path.join(wd, "est1.txt")]
    import contextlib
    import io
    try:
        with contextlib.redirect_stderr(io.StringIO()):
            a_direct = cli.parse(tool, base + optlist)
    except SystemExit:
        return [], "parser-rejects"
    data = main_config.generate(list(optlist))
    cfg = os.path.join(wd, "gen_%d.json" % os.getpid())
    with open(cfg, "w") as f:
        f.write(json.dumps(data, indent=4, sort_keys=True))
    a_cfg = entry_points.merge_config(cli.parse(tool, base + ["-c", cfg]))
    # merge_config may touch SETTINGS only for matching keys (none here)
    if _ns_equal(a_direct, a_cfg):
        return [], "same-namespace"
    # a generated key that is neither an option destination of the tool's
    # parser nor a package setting is read by nothing: if the option values
    # proper did not arrive either, the argument has no effect this way
    from evo.tools.settings import SETTINGS as _S
    stray = [k for k in data if k not in vars(a_direct) and k not in _S]
    if stray and any(getattr(a_cfg, k) != v or
                     type(getattr(a_cfg, k)) is not type(v)
                     for k, v in vars(a_direct).items() if k != "config"):
        return ["evo_%s %s: the generated config %s holds %s, which is "
                "neither an option of evo_%s nor a setting, and the option "
                "values differ from those of the direct call" %
                (tool, " ".join(optlist), json.dumps(data), stray, tool)], \
            "different-effect"
    e1 = _effect(tool, a_direct, wd, "d%d" % os.getpid())
    e2 = _effect(tool, a_cfg, wd, "c%d" % os.getpid())
    if e1 != e2:
        diffs = [k for k in set(e1) | set(e2) if e1.get(k) != e2.get(k)]
        return ["evo_%s %s: generated config %s behaves differently from the "
                "arguments (%s vs %s; differing: %s)" %
                (tool, " ".join(optlist), json.dumps(data), e1["outcome"],
                 e2["outcome"], diffs)], "different-effect"
    return [], "same-effect"


def shard_generate(arg):
    from mc.checks import c15
    tool, cases = arg
    wd = tempfile.mkdtemp(dir=os.getcwd(), prefix="c18g_")
    c15.write_fixture(wd)
    acc = Acc()
    for optlist in cases:
        msgs, kind = judge_generate(tool, optlist, wd)
        acc.count("evaluations")
        acc.count("transitions")
        acc.outcome("generate:" + kind)
        acc.seen("gen_states", (tool, tuple(optlist)))
        if kind in ("same-effect", "different-effect"):
            acc.count("nontrivial")
        if msgs:
            num = any(_is_num(t) for t in optlist)
            acc.violation("generate", msgs[0], {"tool": tool,
                                                "opts": list(optlist)},
                          {"kind": "generate-numeric" if num else "generate"})
        elif kind == "same-effect" and len(acc.samples) < 3:
            acc.sample({"tool": tool, "opts": optlist, "kind": kind})
    return acc


def _is_num(t):
    try:
        float(t)
        return True
    except ValueError:
        return False


def generate_cases(tool, pairs):
    opts = typed_options(tool)
    singles = []
    for name, dest, vals in opts:
        for v in vals:
            singles.append([name] + v)
    cases = list(singles)
    # the same option given twice with different values (the command line
    # lets the last one win), directly and with another option in between
    for k, (name, dest, vals) in enumerate(opts):
        if len(vals) >= 2:
            other = opts[(k + 1) % len(opts)]
            for a, b in ((vals[0], vals[1]), (vals[1], vals[0])):
                cases.append([name] + a + [name] + b)
                cases.append([name] + a + [other[0]] + other[2][0] +
                             [name] + b)
    if pairs:
        for (n1, d1, v1), (n2, d2, v2) in itertools.combinations(opts, 2):
            for a in v1[:2]:
                for b in v2[:2]:
                    cases.append([n1] + a + [n2] + b)
                    cases.append([n2] + b + [n1] + a)
    return cases


# ------------------------------------------------------------------ Part C
def priority_part(ctx):
    """-c overrides the command line and matching settings, for that run
    only; the settings file on disk stays untouched"""
    from mc.checks import c15
    from evo.tools import settings, file_interface
    acc = Acc()
    wd = tempfile.mkdtemp(dir=os.getcwd(), prefix="c18p_")
    c15.write_fixture(wd)
    ref, est = os.path.join(wd, "ref.txt"), os.path.join(wd, "est1.txt")
    with open(settings.DEFAULT_PATH, "rb") as f:
        disk_before = f.read()
    for relation_cfg, relation_cli in (("angle_deg", "trans_part"),
                                       ("trans_part", "full")):
        for save_traj in (True, False):
            cfg = os.path.join(wd, "prio.json")
            with open(cfg, "w") as f:
                json.dump({"pose_relation": relation_cfg, "align": True,
                           "save_traj_in_zip": save_traj}, f)
            out = os.path.join(wd, "prio.zip")
            if os.path.exists(out):
                os.remove(out)
            before_mem = settings.SETTINGS.save_traj_in_zip
            res = cli.run_cli("ape", ["tum", ref, est, "-r", relation_cli,
                                      "--save_results", out, "--no_warnings",
                                      "-c", cfg])
            acc.count("evaluations")
            acc.count("transitions")
            acc.count("nontrivial")
            case = {"cfg": relation_cfg, "cli": relation_cli,
                    "save_traj": save_traj}
            msgs = []
            if not res.ok:
                msgs.append("run failed: %s %s" % (res.outcome(), res.exc))
            else:
                r = file_interface.load_res_file(out, load_trajectories=True)
                want = {"angle_deg": "rotation angle in degrees",
                        "trans_part": "translation part"}[relation_cfg]
                if want not in r.info["title"]:
                    msgs.append("config did not take priority over the "
                                "command line: title %r" % r.info["title"])
                if "Umeyama" not in r.info["title"]:
                    msgs.append("flag from the config was ignored")
                if bool(r.trajectories) != save_traj:
                    msgs.append("matching package setting save_traj_in_zip=%s "
                                "from the config was not used for the run" %
                                save_traj)
            with open(settings.DEFAULT_PATH, "rb") as f:
                if f.read() != disk_before:
                    msgs.append("settings.json on disk was modified by -c")
            # locked container refuses unknown keys
            try:
                settings.SETTINGS.some_unknown_parameter = 1
                msgs.append("unknown parameter was added to the loaded "
                            "settings")
                dict.__delitem__(settings.SETTINGS, "some_unknown_parameter")
            except settings.SettingsException:
                pass
            if msgs:
                acc.violation("priority", "; ".join(msgs[:2]), case,
                              {"kind": "priority"})
    return acc


def override_part(ctx):
    """a config passed with -c overrides *every* matching package setting for
    the run (whatever JSON number type it uses), adds no unknown key and
    leaves the file on disk alone"""
    from evo import entry_points
    from evo.tools import settings
    acc = Acc()
    wd = tempfile.mkdtemp(dir=os.getcwd(), prefix="c18o_")
    with open(settings.DEFAULT_PATH, "rb") as f:
        disk = f.read()
    defaults = pristine_defaults()
    for key, dv in sorted(defaults.items()):
        if isinstance(dv, bool):
            vals = [not dv]
        elif isinstance(dv, float):
            vals = [dv + 1.5, int(dv) + 3]       # float and integer-valued
        elif isinstance(dv, int):
            vals = [dv + 2, float(dv) + 0.5]
        elif isinstance(dv, list):
            vals = [list(dv[:1]) + ["x"], []]
        else:
            vals = [str(dv) + "_cfg"]
        for v in vals:
            cfg = os.path.join(wd, "o.json")
            with open(cfg, "w") as f:
                json.dump({key: v, "not_a_setting": 1, "align": True}, f)
            saved = dict(settings.SETTINGS)
            try:
                args = cli.parse("ape", ["tum", "a", "b", "-c", cfg])
                args = entry_points.merge_config(args)
                got = settings.SETTINGS[key]
                msgs = []
                if got != v or type(got) is not type(v):
                    msgs.append("-c {%s: %r} -> the run uses %r" %
                                (key, v, got))
                if "not_a_setting" in settings.SETTINGS:
                    msgs.append("unknown key was added to the settings")
                if args.align is not True:
                    msgs.append("config value did not override the argument")
            finally:
                for k in list(settings.SETTINGS.keys()):
                    if k not in saved:
                        dict.__delitem__(settings.SETTINGS, k)
                for k, val in saved.items():
                    dict.__setitem__(settings.SETTINGS, k, val)
            with open(settings.DEFAULT_PATH, "rb") as f:
                if f.read() != disk:
                    msgs.append("settings.json on disk was modified")
            acc.count("evaluations")
            acc.count("transitions")
            acc.count("nontrivial")
            acc.outcome("override")
            if msgs:
                acc.violation("override", "; ".join(msgs),
                              {"key": key, "value": v},
                              {"kind": "override"})
    return acc


def builtins_input_swap(fn):
    import builtins
    old = builtins.input
    builtins.input = fn
    return old


def config_values_part(ctx):
    """values a config may hold beyond plain numbers and strings: an explicit
    null / false / 0 / empty list for an option that the command line sets,
    and a package setting whose effect is only visible in the run itself"""
    from evo import entry_points
    from evo.tools import settings
    from mc.checks import c15
    acc = Acc()
    wd = tempfile.mkdtemp(dir=os.getcwd(), prefix="c18v_")
    c15.write_fixture(wd)
    cfg = os.path.join(wd, "v.json")
    table = [
        ("ape", "t_start", None, ["--t_start", "1.2"]),
        ("ape", "save_results", None, ["--save_results", "x.zip"]),
        ("ape", "project_to_plane", None, ["--project_to_plane", "xy"]),
        ("ape", "align", False, ["--align"]),
        ("ape", "n_to_align", 0, ["--n_to_align", "5"]),
        ("rpe", "delta", 0, ["--delta", "3"]),
        ("rpe", "all_pairs", False, ["--all_pairs"]),
        ("traj", "ref", None, ["--ref", "ref.txt"]),
        ("traj", "downsample", None, ["--downsample", "4"]),
        ("traj", "t_offset", 0.0, ["--t_offset", "0.5"]),
    ]
    for tool, key, val, argv in table:
        with open(cfg, "w") as f:
            json.dump({key: val}, f)
        files = ["tum", "ref.txt", "est1.txt"] if tool != "traj" else [
            "tum", "est1.txt"]
        saved = dict(settings.SETTINGS)
        try:
            args = cli.parse(tool, files + argv + ["-c", cfg])
            args = entry_points.merge_config(args)
            got = getattr(args, key)
        finally:
            for k in list(settings.SETTINGS.keys()):
                if k not in saved:
                    dict.__delitem__(settings.SETTINGS, k)
            for k, v in saved.items():
                dict.__setitem__(settings.SETTINGS, k, v)
        acc.count("evaluations")
        acc.count("transitions")
        acc.count("nontrivial")
        acc.outcome("config-value")
        if got != val or type(got) is not type(val):
            acc.violation("config-values", "evo_%s %s -c {%s: %s}: the run "
                          "uses %r, the config file has priority" %
                          (tool, " ".join(argv), key, json.dumps(val), got),
                          {"tool": tool, "key": key}, {"kind": "cfg-value"})
    # evo_config's own command line must hand every argument of the list on
    # to the generator (also those that sound like options of its own)
    from evo import main_config
    import sys
    for argv in (["--no_warnings", "--align"],
                 ["--silent", "--plot_mode", "xz"],
                 ["--verbose", "--t_offset", "-0.5"],
                 ["--debug"], ["--no_warnings"],
                 ["--align", "--no_warnings", "--n_to_align", "7"]):
        out = os.path.join(wd, "gen_cli.json")
        if os.path.exists(out):
            os.remove(out)
        old_argv, old_in = sys.argv, builtins_input_swap(lambda p="": "y")
        sys.argv = ["evo_config", "generate"] + argv + ["-o", out]
        err = None
        try:
            with common.quiet():
                main_config.main()
        except SystemExit as e:
            if e.code not in (None, 0):
                err = "exit %s" % e.code
        except Exception as e:
            err = "%s: %s" % (type(e).__name__, e)
        finally:
            sys.argv = old_argv
            builtins_input_swap(old_in)
            cli._reset_logging()
        want = main_config.generate(list(argv))
        acc.count("evaluations")
        acc.count("transitions")
        acc.count("nontrivial")
        acc.outcome("generate-cli")
        got = None
        if err is None and os.path.exists(out):
            with open(out) as f:
                got = json.load(f)
        if got != want:
            acc.violation("config-values", "evo_config generate %s -o f: "
                          "wrote %s, the argument list means %s%s" %
                          (" ".join(argv), got, want,
                           " (%s)" % err if err else ""),
                          {"tool": "config", "key": " ".join(argv)},
                          {"kind": "generate-cli"})
    # a package setting that only shows in the run: the console log format
    old = os.getcwd()
    os.chdir(wd)
    try:
        with open(cfg, "w") as f:
            json.dump({"console_logging_format": "CFGPFX|%(message)s"}, f)
        for tool, argv in (("ape", ["tum", "ref.txt", "est1.txt"]),
                           ("rpe", ["tum", "ref.txt", "est1.txt"]),
                           ("traj", ["tum", "est1.txt"])):
            res = cli.run_cli(tool, argv + ["-c", "v.json"])
            acc.count("evaluations")
            acc.count("transitions")
            acc.count("nontrivial")
            acc.outcome("config-log-format")
            lines = [l for l in res.stdout.splitlines() if l.strip()]
            if not res.ok or not any(l.startswith("CFGPFX|") for l in lines):
                acc.violation(
                    "config-values", "evo_%s -c {console_logging_format: "
                    "'CFGPFX|...'}: the setting from the config file has no "
                    "effect on the run (%s; first output line %r)" %
                    (tool, res.outcome(), lines[:1]),
                    {"tool": tool, "key": "console_logging_format"},
                    {"kind": "cfg-setting-effect"})
    finally:
        os.chdir(old)
    return acc


def _non_default(dv):
    if isinstance(dv, bool):
        return not dv
    if isinstance(dv, (int, float)):
        return dv + 1
    if isinstance(dv, list):
        return list(dv) + ["x"]
    return str(dv) + "_user"


def run_reset_subset(keys):
    """from a settings file in which EVERY key holds a user value: resetting
    the subset restores exactly those keys"""
    from evo.tools import settings
    defaults = pristine_defaults()
    user = {k: _non_default(v) for k, v in defaults.items()}
    path = os.path.join(tempfile.mkdtemp(dir=os.getcwd(), prefix="c18s_"),
                        "settings.json")
    with open(path, "w") as f:
        json.dump(user, f)
    msgs = []
    try:
        settings.reset(type(settings.DEFAULT_PATH)(path),
                       parameter_subset=list(keys))
    except Exception as e:
        return ["reset %s raised %s: %s" % (keys, type(e).__name__, e)]
    with open(path) as f:
        after = json.load(f)
    if set(after) != set(user):
        msgs.append("reset %s changed the key set" % (keys, ))
    for k in user:
        if k in keys and after.get(k) != defaults[k]:
            msgs.append("reset %s did not restore %s" % (keys, k))
        if k not in keys and after.get(k) != user[k]:
            msgs.append("reset %s changed the user's value of %s to %r" %
                        (keys, k, after.get(k)))
    if defaults_polluted():
        msgs.append("reset %s modified the package defaults in memory" %
                    (keys, ))
    return msgs


def reset_each_part(ctx):
    acc = Acc()
    names = sorted(pristine_defaults())
    subsets = [[k] for k in names]
    subsets += [[a, b] for a, b in zip(names, names[1:])]
    # (names that are prefixes of other names, both orders)
    subsets += [[a, b] for a in names for b in names
                if a != b and (b.startswith(a) or a.startswith(b))]
    subsets += [[k, "not_a_key"] for k in names[::7]]
    for keys in subsets:
        msgs = run_reset_subset(keys)
        acc.count("evaluations")
        acc.count("transitions")
        acc.count("nontrivial")
        acc.outcome("reset-subset")
        if msgs:
            acc.violation("reset_each", "; ".join(msgs[:2]), {"keys": keys},
                          {"kind": "reset-subset"})
    return acc


def run(ctx):
    depth = ctx.pick(2, 3)
    acc = hist.bfs(ctx, FACTORY, depth, max_states=ctx.pick(None, 60000))
    jobs = []
    for tool in ("ape", "rpe", "traj"):
        cases = generate_cases(tool, pairs=True)
        if not ctx.thorough:
            # quick: all singles + every third pair case (deterministic)
            n_single = len(generate_cases(tool, pairs=False))
            cases = cases[:n_single] + cases[n_single::3]
        for s in shard(cases, 12):
            jobs.append((tool, s))
    g = pmap_acc(ctx, __name__, "shard_generate", jobs)
    st = acc.counters["states"] + len(g.distinct.get("gen_states", ()))
    acc.merge(g)
    p = priority_part(ctx)
    p.merge(override_part(ctx))
    p.merge(reset_each_part(ctx))
    p.merge(config_values_part(ctx))
    acc.merge(p)
    acc.counters["states"] = st + p.counters["evaluations"]
    acc.counters["evaluations"] = acc.counters["transitions"]
    acc.rule = (
        "Part A: BFS to depth %d over %d operations (set with 16 value-token "
        "lists for 6 representative keys incl. bool/list/int/float/str/"
        "palette, unknown keys, multi-key sets, subset resets, reset all, "
        "hard/soft merge, upgrade with missing keys) from 2 initial settings "
        "files, on the real set_config/reset/merge_json_union/"
        "update_if_outdated. Part B: every typed long option of the evo_ape/"
        "evo_rpe/evo_traj 'tum' parsers (introspected) x 1-4 values, and %s "
        "ordered pairs of options: direct parsing vs -c <generated>; "
        "differing namespaces are executed both ways and compared by effect. "
        "Part C: -c priority, per-run settings override, locked container; "
        "reset of every single key, adjacent pair and prefix-related pair "
        "from a file in which every key holds a user value. "
        "non-trivial (B) = cases decided by executing both variants" %
        (depth, len(OPS), "all" if ctx.thorough else "every third of the"))
    return acc


def replay(part, case):
    if part == "history":
        return hist.replay_history(case.get("factory", FACTORY), case["init"],
                               case["ops"])
    if part == "generate":
        from mc.checks import c15
        wd = tempfile.mkdtemp(dir=os.getcwd(), prefix="c18r_")
        c15.write_fixture(wd)
        return judge_generate(case["tool"], case["opts"], wd)[0]
    if part == "override":
        class _C(object):
            pass
        a = override_part(_C())
        return [v["msg"] for v in a.violations if v["case"] == case]
    if part == "config-values":
        class _C(object):
            pass
        a = config_values_part(_C())
        return [v["msg"] for v in a.violations if v["case"] == case]
    if part == "reset_each":
        return run_reset_subset(case["keys"])
    if part == "priority":
        class _C(object):
            pass
        a = priority_part(_C())
        return [v["msg"] for v in a.violations if v["case"] == case]
    return []
