"""
C14 - plane projection puts every pose into the plane and leaves planar poses
unchanged.  E1 over planes x {planar poses on a 1-degree heading grid with
knife-edge neighbours, all Euler triples on a pi/8 grid, the hard rotation
alphabet} x constructor x every subset of views read beforehand.
"""
import itertools
import math

import numpy as np

from mc import common
from mc.engine.core import Acc, pmap_acc
from mc.refmodel import geom

PLANES = {"xy": 2, "xz": 1, "yz": 0}
READS = [c for r in range(4) for c in itertools.combinations(
    ("pos", "quat", "mat"), r)]


def headings():
    hs = [float(d) for d in range(-179, 181)]
    for c in (0.0, 90.0, -90.0, 180.0, -180.0, 45.0):
        for e in (1e-9, 1e-12):
            for sgn in (1, -1):
                h = c + sgn * math.degrees(e)
                if -180.0 < h <= 180.0:
                    hs.append(h)
    return hs


def planar_set(plane):
    nd = PLANES[plane]
    axis = np.zeros(3)
    axis[nd] = 1.0
    Rs, ps, tags = [], [], []
    for k, h in enumerate(headings()):
        Rs.append(geom.rodrigues(axis, math.radians(h)))
        p = np.array([1.0 + (k % 7), -2.0 + (k % 5) * 0.5, 3.0 + (k % 3)])
        p[nd] = 0.0
        ps.append(p)
        tags.append(("planar", h))
    return Rs, ps, tags


def euler_set():
    Rs, ps, tags = [], [], []
    k = 0
    for a, b, c in itertools.product(range(16), repeat=3):
        R = geom.rodrigues((0, 0, 1), c * math.pi / 8) @ geom.rodrigues(
            (0, 1, 0), b * math.pi / 8) @ geom.rodrigues((1, 0, 0),
                                                         a * math.pi / 8)
        Rs.append(R)
        ps.append(np.array([0.5 * (k % 11) - 2, 1.5 * (k % 7), -0.25 * (k % 13)
                            + 1e3 * (k % 2)]))
        tags.append(("euler", (a, b, c)))
        k += 1
    return Rs, ps, tags


def hard_set(seed):
    Rs = common.rot_hard(seed, 3)
    P = common.pos_hard(seed, 1)
    ps = [P[k % len(P)] for k in range(len(Rs))]
    return Rs, ps, [("hard", k) for k in range(len(Rs))]


def build(Rs, ps, ctor, reads, timed=True):
    ts = [100.0 + 0.25 * k for k in range(len(ps))] if timed else None
    t = common.make_traj(Rs, ps, ts, ctor)
    for r in reads:
        if r == "pos":
            t.positions_xyz
        elif r == "quat":
            t.orientations_quat_wxyz
        else:
            t.poses_se3
    return t, ts


def run_case(case, sets=None):
    """case: {set, plane, ctor, reads, seed}; returns list of (msg, cls)"""
    from evo.core.trajectory import Plane, TrajectoryException
    plane = case["plane"]
    nd = PLANES[plane]
    if case["set"] == "planar":
        Rs, ps, tags = planar_set(case.get("planar_plane", plane))
    elif case["set"] == "euler":
        Rs, ps, tags = euler_set()
    elif case["set"] == "euler-inplane":
        # general orientations whose positions already lie in the plane
        Rs, ps, tags = euler_set()
        Rs, ps, tags = Rs[::5], [p.copy() for p in ps[::5]], tags[::5]
        for p in ps:
            p[nd] = 0.0
    else:
        Rs, ps, tags = hard_set(case.get("seed", 0))
    if "only" in case:  # replay of a single pose
        i = case["only"]
        Rs, ps, tags = [Rs[i]], [ps[i]], [tags[i]]
    t, ts = build(Rs, ps, case["ctor"], case["reads"])
    out = []
    if case.get("before") == "rejected":
        # calls that evo rejects (not a plane) project nothing - the object
        # has not been projected afterwards
        snap0 = common.snapshot(t)
        for bad in ("xy", None, 2, plane.upper()):
            try:
                t.project(bad)
                return [("project(%r) was accepted" % (bad, ),
                         {"kind": "bad-plane-accepted"}, None)]
            except Exception:
                pass
        if common.snapshot(t) != snap0:
            out.append(("a rejected project() call changed the trajectory",
                        {"kind": "rejected-call-changed"}, None))
    try:
        t.project(Plane(plane))
    except TrajectoryException as e:
        return [("the first projection was refused (%s)%s" %
                 (e, " after rejected calls with an invalid plane argument"
                  if case.get("before") else ""),
                 {"kind": "first-projection-refused"}, None)]
    v = common.views(t)
    n = len(ps)
    if not (v["n"] == n == len(v["xyz"]) == len(v["quat"]) == len(v["poses"])
            == len(v["stamps"])):
        return [("pose count changed or views disagree in length",
                 {"kind": "count"}, None)]
    if not np.array_equal(v["stamps"], ts):
        out.append(("timestamps changed", {"kind": "stamps"}, None))
    axis = np.zeros(3)
    axis[nd] = 1.0
    inplane = [d for d in range(3) if d != nd]
    for k in range(n):
        M = v["poses"][k]
        p_in = ps[k]
        where = {"pose": tags[k], "index": k}
        if M[nd, 3] != 0.0 or v["xyz"][k][nd] != 0.0:
            out.append(("out-of-plane coordinate is %r / %r, not 0" %
                        (M[nd, 3], v["xyz"][k][nd]), {"kind": "not-zeroed"},
                        k))
            continue
        if not all(M[d, 3] == p_in[d] and v["xyz"][k][d] == p_in[d]
                   for d in inplane):
            out.append(("in-plane coordinates changed: %s -> %s" %
                        (p_in.tolist(), M[:3, 3].tolist()),
                        {"kind": "in-plane-changed"}, k))
            continue
        R = M[:3, :3]
        if not geom.is_rotation(R) or not np.array_equal(M[3],
                                                         [0, 0, 0, 1]):
            out.append(("not a valid rigid-body pose", {"kind": "invalid"},
                        k))
            continue
        if not common.close(R @ axis, axis) or not common.close(
                axis @ R, axis):
            out.append(("orientation is not a pure rotation about the plane "
                        "normal", {"kind": "not-about-normal"}, k))
            continue
        Rq = geom.quat_wxyz_to_rot(v["quat"][k])
        if abs(np.linalg.norm(v["quat"][k]) - 1) > 1e-9 or not common.close(
                Rq, R):
            out.append(("quaternion view disagrees with the projected pose "
                        "matrix", {"kind": "views-disagree"}, k))
            continue
        # a pose already in the plane must stay unchanged
        Rin = Rs[k]
        planar_in = common.close(Rin @ axis, axis) and p_in[nd] == 0.0
        if planar_in and not common.close(R, Rin):
            h_in = heading(Rin, nd)
            h_out = heading(R, nd)
            cls = {"kind": "planar-changed", "plane": plane}
            if plane == "xz" and abs(h_in) > 90.0:
                # the specific known mapping: theta -> 180 - theta
                mirrored = math.copysign(180.0, h_in) - h_in
                if abs(h_out - mirrored) < 1e-6:
                    cls = {"kind": "xz-heading-beyond-90"}
            out.append(("planar pose (heading %.12g deg about the %s normal) "
                        "changed by projection to heading %.12g" %
                        (h_in, plane, h_out), cls, k))
    # operations in between do not re-enable projecting
    if "only" not in case:
        Tm = geom.pose(geom.rodrigues((0, 0, 1), 0.3), [1.0, 2.0, 0.0])
        for between in ("transform", "transform-right", "scale", "reduce",
                        "align_origin"):
            t2, _ = build(Rs[:5], ps[:5], case["ctor"], case["reads"])
            t2.project(Plane(plane))
            if between == "transform":
                t2.transform(np.eye(4))
            elif between == "transform-right":
                t2.transform(Tm.copy(), right_mul=True)
            elif between == "scale":
                t2.scale(2.0)
            elif between == "reduce":
                t2.reduce_to_ids([0, 1])
            else:
                t2.align_origin(build(Rs[:5], ps[:5], "se3", [])[0])
            for p2 in ("xy", "xz", "yz"):
                try:
                    t2.project(Plane(p2))
                    out.append(("second projection (%s) after %s was not "
                                "refused" % (p2, between),
                                {"kind": "second-projection"}, None))
                    break
                except TrajectoryException:
                    pass
    # a second object built from the very pose list of the first is another
    # object: projecting the first must not reach it, and it can still be
    # projected itself - onto another plane - from the original poses
    if "only" not in case:
        from evo.core.trajectory import PosePath3D, PoseTrajectory3D
        ta, tsa = build(Rs[:6], ps[:6], case["ctor"], case["reads"])
        lst = ta.poses_se3
        tb = PoseTrajectory3D(poses_se3=lst, timestamps=ta.timestamps) \
            if tsa is not None else PosePath3D(poses_se3=lst)
        ta.project(Plane(plane))
        other = {"xy": "yz", "yz": "xz", "xz": "xy"}[plane]
        nd2 = PLANES[other]
        try:
            tb.project(Plane(other))
            vb = common.views(tb)
            for k in range(len(vb["poses"])):
                keep = [d for d in range(3) if d != nd2]
                if vb["poses"][k][nd2, 3] != 0.0 or not all(
                        vb["poses"][k][d, 3] == ps[k][d] for d in keep):
                    out.append((
                        "a second object built from the same pose list, "
                        "projected onto %s after the first was projected "
                        "onto %s: pose %d is %s, original position %s" %
                        (other, plane, k, vb["poses"][k][:3, 3].tolist(),
                         ps[k].tolist()), {"kind": "shared-list"}, None))
                    break
        except TrajectoryException as e:
            out.append(("a second object built from the same pose list "
                        "could not be projected (%s)" % e,
                        {"kind": "shared-list"}, None))
    # two objects that were given one and the same metadata dict are still
    # two objects; and replacing / clearing the metadata of a projected
    # object does not make it un-projected
    if "only" not in case:
        shared = {"frame_id": "map"}
        tsx = [100.0 + 0.25 * k for k in range(4)]
        tc = common.make_traj(Rs[:4], ps[:4], tsx, case["ctor"], meta=shared)
        td = common.make_traj(Rs[:4], ps[:4], tsx, case["ctor"], meta=shared)
        tc.project(Plane(plane))
        try:
            td.project(Plane(plane))
            if any(M[nd, 3] != 0.0 for M in common.views(td)["poses"]):
                out.append(("second object with the same metadata dict: not "
                            "projected", {"kind": "shared-meta"}, None))
        except TrajectoryException as e:
            out.append(("the first projection of another object that was "
                        "given the same metadata dict was refused (%s)" % e,
                        {"kind": "shared-meta"}, None))
        for how in ("replace", "clear"):
            te = common.make_traj(Rs[:4], ps[:4], tsx, case["ctor"],
                                  meta={"frame_id": "map"})
            te.project(Plane(plane))
            if how == "replace":
                te.meta = {"frame_id": "odom"}
            else:
                te.meta.clear()
            try:
                te.project(Plane(plane))
                out.append(("second projection was not refused after the "
                            "object's metadata was %sd" % how,
                            {"kind": "second-projection"}, None))
            except TrajectoryException:
                pass
    # second projection is refused and changes nothing
    snap = common.snapshot(t)
    for p2 in ("xy", "xz", "yz"):
        try:
            t.project(Plane(p2))
            out.append(("second projection (%s) was not refused" % p2,
                        {"kind": "second-projection"}, None))
            break
        except TrajectoryException:
            pass
    if common.snapshot(t) != snap:
        out.append(("refused second projection changed the trajectory",
                    {"kind": "second-projection"}, None))
    return out


def heading(R, nd):
    i, j = [(1, 2), (2, 0), (0, 1)][nd]
    # rotation about axis nd by h: R[j,i] = sin h, R[i,i] = cos h
    return math.degrees(math.atan2(R[j, i], R[i, i]))


def shard_cases(cases):
    acc = Acc()
    for case in cases:
        res = run_case(case)
        nposes = {"planar": len(headings()), "euler": 4096,
                  "euler-inplane": 820}.get(case["set"], 107)
        acc.count("evaluations", nposes)
        acc.count("transitions")
        acc.outcome("%s/%s" % (case["set"], case["plane"]))
        acc.count("nontrivial", nposes if case["set"] != "planar" else 0)
        seen = set()
        for msg, cls, k in res:
            key = repr(sorted(cls.items()))
            # one report per class and case, but every K1 pose is counted
            c = dict(case)
            if k is not None:
                c["only"] = k
            if key in seen and cls.get("kind") != "xz-heading-beyond-90":
                acc.count("violations_total")
                continue
            seen.add(key)
            acc.violation("project", "%s: %s" % (case, msg), c, cls)
        if not res:
            acc.sample(case)
    return acc


def run_metric_case(case):
    """ape()/rpe() with project_to_plane: both stored trajectories lie in the
    plane - also when reference and estimate are two objects with equal data
    ("eq"); (passing the very same object twice means projecting it twice,
    which the property wants refused)"""
    from evo import main_ape, main_rpe
    from evo.core import metrics
    from evo.core.trajectory import Plane
    from evo.core.units import Unit
    plane, nd = case["plane"], PLANES[case["plane"]]
    if case.get("euler"):
        # a non-default package setting (it belongs to the roll/pitch/yaw
        # plot, the projection must not follow it)
        from evo.tools.settings import SETTINGS
        old = SETTINGS.euler_angle_sequence
        dict.__setitem__(SETTINGS, "euler_angle_sequence", case["euler"])
        try:
            return run_metric_case(dict(case, euler=None))
        finally:
            dict.__setitem__(SETTINGS, "euler_angle_sequence", old)
    planar = case.get("poses") == "planar"
    if planar:
        # poses that already lie in the plane (headings within +-90 deg: the
        # known finding K1 concerns the others in the xz plane)
        Rs, ps, tags = planar_set(plane)
        keep = [k for k, t in enumerate(tags) if abs(t[1]) <= 90.0][::7]
        Rs, ps = [Rs[k] for k in keep], [ps[k] for k in keep]
    else:
        Rs, ps, _ = hard_set(case.get("seed", 0))
        Rs, ps = Rs[::9], ps[::9]
    ref, _ = build(Rs, ps, case["ctor"], [])
    if case["est"] == "eq":
        est, _ = build(Rs, ps, case["ctor"], [])
    else:
        est, _ = build(Rs[::-1], ps, case["ctor"], [])
    rel = metrics.PoseRelation.full_transformation
    if case["tool"] == "ape":
        r = main_ape.ape(ref, est, rel, project_to_plane=Plane(plane),
                         ref_name="R", est_name="E")
    else:
        r = main_rpe.rpe(ref, est, rel, 1, Unit.frames,
                         project_to_plane=Plane(plane), ref_name="R",
                         est_name="E")
    out = []
    for name in ("R", "E"):
        v = common.views(r.trajectories[name])
        if any(M[nd, 3] != 0.0 for M in v["poses"]):
            out.append("%s(project_to_plane=%s): stored trajectory %s is not "
                       "in the plane" % (case["tool"], plane, name))
        if planar and name == "R":
            for k, M in enumerate(v["poses"]):
                if not common.close(M, geom.pose(Rs[k], ps[k]), 10):
                    out.append("%s(project_to_plane=%s): a pose that already "
                               "lies in the plane was changed (pose %d of "
                               "the stored reference)" %
                               (case["tool"], plane, k))
                    break
    # the same reference reused for a second evaluation with another plane
    # is an object that was projected already: refused, not skipped
    from evo.core.trajectory import TrajectoryException
    other = {"xy": "xz", "xz": "yz", "yz": "xy"}[plane]
    est2, _ = build(Rs[::-1], ps, case["ctor"], [])
    try:
        if case["tool"] == "ape":
            r2 = main_ape.ape(ref, est2, rel, project_to_plane=Plane(other),
                              ref_name="R", est_name="E")
        else:
            r2 = main_rpe.rpe(ref, est2, rel, 1, Unit.frames,
                              project_to_plane=Plane(other), ref_name="R",
                              est_name="E")
        out.append("%s(project_to_plane=%s) on a reference that was already "
                   "projected onto %s by an earlier call was not refused" %
                   (case["tool"], other, plane))
    except TrajectoryException:
        pass
    err = np.array(r.np_arrays.get("error_array", []))
    if case["est"] == "eq" and err.size and np.abs(err).max() > 1e-9:
        out.append("%s(project_to_plane=%s) of equal trajectories is not "
                   "zero (max %.3g)" % (case["tool"], plane,
                                        np.abs(err).max()))
    return out


def shard_metric(cases):
    acc = Acc()
    for case in cases:
        msgs = run_metric_case(case)
        acc.count("evaluations")
        acc.count("transitions")
        acc.count("nontrivial")
        acc.outcome("metric/%s/%s" % (case["tool"], case["est"]))
        if msgs:
            acc.violation("metric", "%s: %s" % (case, "; ".join(msgs)), case,
                          {"kind": "metric-projection"})
    return acc


def shard_cli(cases):
    """evo_traj / --project_to_plane together with the steps that replace the
    trajectory objects before the projection (association with a reference,
    alignment, merge): the exported trajectories are the projected ones
    (judged by C15's reference pipeline)"""
    import os
    import tempfile
    from mc.checks import c15
    acc = Acc()
    wd = tempfile.mkdtemp(dir=os.getcwd(), prefix="c14cli_")
    old = os.getcwd()
    os.chdir(wd)
    try:
        c15.write_fixture(wd)
        for case in cases:
            msgs, outcome = c15.run_point(case)
            acc.count("evaluations")
            acc.count("transitions")
            acc.count("nontrivial")
            acc.outcome("evo_traj/" + outcome.split(":")[0])
            if msgs:
                acc.violation("cli", "evo_traj %s: %s" % (
                    " ".join(c15.argv_of(case)[0]), "; ".join(msgs[:2])),
                    case, {"kind": "cli-projection"})
    finally:
        os.chdir(old)
    return acc


def cli_cases():
    from mc.checks import c15
    out = []
    # (transformations with an out-of-plane part: the projection comes last)
    tfs = [c15.TRANSF[0], ("left", False, False, "se3", "npy"),
           ("right", False, False, "sim3", "mat")]
    for plane in PLANES:
        for align in ("none", "sync", "a", "origin"):
            for merge in (False, True):
                for nfiles in (1, 2):
                    for tf in tfs:
                        out.append({"nfiles": nfiles, "downsample": None,
                                    "motion_filter": None, "merge": merge,
                                    "t_offset": 0.0, "align": align,
                                    "n_to_align": -1, "transform": tf,
                                    "project": plane, "export": "tum",
                                    "t_max_diff": 0.01})
    return out


def run(ctx):
    cases = []
    for plane in PLANES:
        for ctor in ("se3", "quat"):
            for reads in READS:
                cases.append({"set": "planar", "plane": plane, "ctor": ctor,
                              "reads": list(reads)})
                cases.append({"set": "hard", "plane": plane, "ctor": ctor,
                              "reads": list(reads), "seed": ctx.seed})
                if ctx.thorough or len(reads) in (0, 3) or reads == ("quat", ):
                    cases.append({"set": "euler", "plane": plane,
                                  "ctor": ctor, "reads": list(reads)})
    for plane in PLANES:
        for ctor in ("se3", "quat"):
            for reads in ((), ("pos", ), ("pos", "quat", "mat")):
                cases.append({"set": "euler-inplane", "plane": plane,
                              "ctor": ctor, "reads": list(reads)})
    # planar poses of one plane projected onto another plane (general input)
    for plane, other in (("xy", "xz"), ("xz", "yz"), ("yz", "xy")):
        cases.append({"set": "planar", "plane": plane, "planar_plane": other,
                      "ctor": "quat", "reads": []})
    # pose matrices held as one (n, 4, 4) array instead of a list
    for plane in PLANES:
        for setname in ("hard", "planar"):
            cases.append({"set": setname, "plane": plane, "ctor": "arr",
                          "reads": [], "seed": ctx.seed})
    # ... and after project() calls that were rejected for their argument
    cases += [dict(c, before="rejected") for c in cases
              if c["set"] in ("hard", "euler-inplane")]
    acc = pmap_acc(ctx, __name__, "shard_cases", [[c] for c in cases])
    acc.merge(pmap_acc(ctx, __name__, "shard_metric", [[
        {"plane": plane, "ctor": ctor, "tool": tool, "est": est,
         "seed": ctx.seed, "poses": poses, "euler": euler}]
        for plane in PLANES for ctor in ("se3", "quat")
        for tool in ("ape", "rpe") for est in ("other", "eq")
        for poses in ("hard", "planar")
        for euler in (None, "szyx", "rzyx")]))
    acc.merge(pmap_acc(ctx, __name__, "shard_cli", [cli_cases()]))
    acc.counters["states"] = acc.counters["evaluations"]
    acc.rule = (
        "3 planes x {planar poses: %d headings (1-degree grid over (-180,180] "
        "plus +-1e-9, +-1e-12 around 0, +-90, 180, 45), all 4096 Euler "
        "triples on a pi/8 grid (both gimbal-lock attitudes; also with "
        "positions already in the plane), %d hard "
        "rotations x hard positions} x {matrices, positions+quaternions} x "
        "all 8 subsets of views read before the call; evaluations = projected "
        "poses. non-trivial = non-planar input poses" %
        (len(headings()), 107))
    acc.assumptions = [
        "known finding K1 (xz plane, planar pose with |heading| > 90 deg is "
        "mapped to 180 - heading) is matched only when the observed output "
        "is exactly that mapping; any other deviation is a VIOLATION",
    ]
    return acc


def replay(part, case):
    if part == "metric":
        return run_metric_case(case)
    if part == "cli":
        case = dict(case, transform=tuple(case["transform"]))
        a = shard_cli([case])
        return [v["msg"] for v in a.violations]
    return [m for m, cls, k in run_case(case)]
