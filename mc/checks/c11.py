"""
C11 - sub-sampling, cropping, splitting and merging select exactly the
specified poses.  E1 over small tagged trajectories on exact grids.
"""
import itertools
import math

import numpy as np

from mc import common
from mc.engine.core import Acc, pmap_acc, shard
from mc.refmodel import geom

MODES = ("quat", "se3", "quat+read", "se3+read")


def tagged(n, t0=0.0, dt=0.5, base=0.0):
    """n poses with unique position / orientation / stamp"""
    Rs = [geom.rodrigues((0, 0, 1), 0.01 * (k + 1) + base) @ geom.rodrigues(
        (1, 0, 0), 0.02 * (k + 1)) for k in range(n)]
    # every fourth pose holds an exact half turn (quaternion w == 0), every
    # fourth an exact quarter turn (poses are identified by their positions)
    for k in range(n):
        if k % 4 == 1:
            d = [-1.0, -1.0, -1.0]
            d[(k // 4) % 3] = 1.0
            Rs[k] = np.diag(d)
        elif k % 4 == 3:
            Rs[k] = np.array([[0.0, -1.0, 0.0], [1.0, 0.0, 0.0],
                              [0.0, 0.0, 1.0]])
    ps = [np.array([base + k, 10.0 * k + 0.5, -1.0 * k * k]) for k in range(n)]
    ts = [t0 + dt * k for k in range(n)]
    return Rs, ps, ts


def identify(view, k, Rs, ps, ts, timed=True):
    """index of the input pose that output pose k is a copy of (all three
    views and the timestamp must point to the same input pose)"""
    cands = []
    for i in range(len(ps)):
        if np.array_equal(view["xyz"][k], ps[i]):
            cands.append(i)
    if len(cands) != 1:
        return None
    i = cands[0]
    if not common.close(view["poses"][k], geom.pose(Rs[i], ps[i]), 100):
        return None
    if not common.close(geom.quat_wxyz_to_rot(view["quat"][k]), Rs[i]):
        return None
    if timed and view["stamps"][k] != ts[i]:
        return None
    return i


def kept_ids(traj, Rs, ps, ts, timed=True):
    v = common.views(traj)
    if not (v["n"] == len(v["xyz"]) == len(v["quat"]) == len(v["poses"])):
        return None, "views have different lengths"
    if timed and len(v["stamps"]) != v["n"]:
        return None, "timestamps have a different length"
    ids = []
    for k in range(v["n"]):
        i = identify(v, k, Rs, ps, ts, timed)
        if i is None:
            return None, ("output pose %d is not one input pose with its own "
                          "position, orientation and timestamp" % k)
        ids.append(i)
    return ids, None


# ---------------------------------------------------------------- downsample
def shard_downsample(arg):
    acc = Acc()
    for count in arg:
        Rs, ps, ts = tagged(count)
        for N in range(1, count + 3):
            for mode in MODES:
                for timed in (True, False):
                    t = common.make_traj(Rs, ps, ts if timed else None, mode)
                    t.downsample(N)
                    ids, err = kept_ids(t, Rs, ps, ts, timed)
                    msgs = [err] if err else []
                    if ids is not None:
                        want = min(N, count)
                        if len(ids) != want:
                            msgs.append("kept %d poses, expected %d" %
                                        (len(ids), want))
                        if any(b <= a for a, b in zip(ids, ids[1:])):
                            msgs.append("indices not strictly increasing: %s"
                                        % ids)
                        if ids and ids[0] != 0:
                            msgs.append("first pose not kept")
                        if ids and N >= 2 and ids[-1] != count - 1:
                            msgs.append("last pose not kept")
                        if N >= 2 and len(ids) == N and N < count:
                            for k, i in enumerate(ids):
                                ideal = k * (count - 1) / (N - 1)
                                # (closed bound: numpy's linspace may land
                                # one ulp below an integer ideal, e.g.
                                # count=31, N=23, k=11 -> 14.999999999999998)
                                if abs(i - ideal) > 1.0 + 1e-9:
                                    msgs.append("index %d far from evenly "
                                                "spaced %.3f" % (i, ideal))
                                    break
                    case = {"op": "downsample", "count": count, "N": N,
                            "mode": mode, "timed": timed}
                    _rec(acc, case, msgs, "downsample", N < count)
    return acc


def _rec(acc, case, msgs, label, nontrivial):
    acc.count("evaluations")
    acc.count("transitions")
    acc.outcome(label)
    if nontrivial:
        acc.count("nontrivial")
    if msgs:
        acc.violation(case["op"], "%s: %s" % (case, "; ".join(msgs[:2])), case,
                      {"kind": case["op"]})
    elif acc.counters["evaluations"] % 20011 == 1:
        acc.sample(case)


# -------------------------------------------------------------- motion filter
MF_LEN = (0.0, 1.0, 2.0)
# (a clockwise step of 100 deg: relative angles between 90 deg and the
# largest threshold occur in both turning directions)
MF_ROT = (0.0, 45.0, -100.0)
MF_D = (0.0, 1.0, 1.5, 2.0, 1.00001, 1.99999)
MF_A = (0.0, 30.0, 45.0, 150.0, 45.001, 89.999)


def mf_traj(steps):
    Rs, ps = [np.eye(3)], [np.zeros(3)]
    for k, (li, ri) in enumerate(steps):
        d = np.zeros(3)
        d[k % 3] = MF_LEN[li]
        ps.append(ps[-1] + d)
        Rs.append(Rs[-1] @ geom.rodrigues((0, 0, 1),
                                          math.radians(MF_ROT[ri])))
    ts = [0.5 * k for k in range(len(ps))]
    return Rs, ps, ts


def run_motion_filter(case):
    from evo.core.filters import FilterException
    Rs, ps, ts = mf_traj(case["steps"])
    d, a = case["d"], case["a"]
    t = common.make_traj(Rs, ps, ts, case["mode"])
    snap = common.snapshot(t)
    try:
        t.motion_filter(d, a, True)
    except FilterException:
        if len(ps) >= 2:
            return ["motion filter refused a trajectory with %d poses" %
                    len(ps)], False
        if common.snapshot(t) != snap:
            return ["refused motion filter changed the trajectory"], False
        return [], False
    v = common.views(t)
    # identify by timestamp (positions repeat on zero-length steps)
    ids = []
    for k in range(v["n"]):
        s = float(v["stamps"][k])
        if s not in ts:
            return ["unknown timestamp in the output"], False
        i = ts.index(s)
        if not np.array_equal(v["xyz"][k], ps[i]) or not common.close(
                v["poses"][k], geom.pose(Rs[i], ps[i]), 10) or \
                not common.close(geom.quat_wxyz_to_rot(v["quat"][k]), Rs[i]):
            return ["pose, orientation and timestamp did not travel together "
                    "(output %d)" % k], False
        ids.append(i)
    msgs = []
    if not ids or ids[0] != 0:
        msgs.append("first pose not kept")
    if any(b <= a_ for a_, b in zip(ids, ids[1:])):
        msgs.append("order not preserved: %s" % ids)
    # every pose: kept iff path since last kept >= d or angle to last kept >= a
    a_rad = math.radians(a)
    last, path = 0, 0.0
    kept = set(ids)
    for i in range(1, len(ps)):
        path += float(np.linalg.norm(ps[i] - ps[i - 1]))
        ang = geom.rot_angle(Rs[last].T @ Rs[i])
        must = path >= d or ang >= a_rad + 1e-9
        must_not = path < d and ang <= a_rad - 1e-9
        if must and i not in kept:
            msgs.append("pose %d not kept although path %g >= %g or angle "
                        "%.4g >= %.4g since pose %d" % (i, path, d, ang,
                                                        a_rad, last))
            break
        if must_not and i in kept:
            msgs.append("pose %d kept although path %g < %g and angle %.4g < "
                        "%.4g since pose %d" % (i, path, d, ang, a_rad, last))
            break
        if i in kept:
            last, path = i, 0.0
    return msgs, len(ids) < len(ps)


def shard_motion(arg):
    seqs = arg
    acc = Acc()
    for steps in seqs:
        for d in MF_D:
            for a in MF_A:
                mode = MODES[(len(steps) + int(d * 2) + int(a)) % 4]
                case = {"op": "motion_filter", "steps": [list(s) for s in
                                                         steps],
                        "d": d, "a": a, "mode": mode}
                msgs, nt = run_motion_filter(case)
                _rec(acc, case, msgs, "motion_filter", nt)
    return acc


# ----------------------------------------------------------------------- crop
def shard_crop(arg):
    from evo.core.trajectory import TrajectoryException
    acc = Acc()
    for n, order in arg:
        Rs, ps, ts = tagged(n, t0=1.0, dt=0.5)
        if order == "disordered" and n >= 3:
            # a block of poses logged late: the statement "keeps exactly the
            # poses with start <= t <= end" does not depend on the order
            ts = ts[n // 2:] + ts[:n // 2]
        elif order == "negative":
            ts = [t - 3.0 for t in ts]  # stamps around zero
        grid = [None, 0.0, 0.75] + sorted(ts) + [max(ts) + 0.25, 100.0]
        for start in grid:
            for end in grid:
                for mode in MODES[:2] if n > 3 else MODES:
                    t = common.make_traj(Rs, ps, ts, mode)
                    s = ts[0] if start is None else start
                    e = ts[-1] if end is None else end
                    case = {"op": "crop", "n": n, "start": start, "end": end,
                            "mode": mode, "order": order}
                    msgs = []
                    try:
                        t.reduce_to_time_range(start, end)
                        if s > e:
                            msgs.append("start > end was not refused")
                        ids, err = kept_ids(t, Rs, ps, ts)
                        if err:
                            msgs.append(err)
                        else:
                            exp = [i for i, x in enumerate(ts) if s <= x <= e]
                            if ids != exp:
                                msgs.append("kept %s, expected %s" % (ids,
                                                                      exp))
                    except TrajectoryException:
                        if s <= e:
                            exp = [i for i, x in enumerate(ts) if s <= x <= e]
                            # an empty selection may be refused (empty
                            # trajectories cannot exist), nothing else
                            if exp:
                                msgs.append("valid crop interval refused")
                    _rec(acc, case, msgs, "crop", True)
    return acc


# --------------------------------------------------------------------- splits
# the last entries exceed a threshold value by 2^-20 (about 1e-6): such a
# step IS a gap for the thresholds 1.0 / 2.0 (strict comparison)
GAP_T = (0.5, 1.0, 2.0, 1.0 + 2.0**-20)
GAP_D = (1.0, 2.0, 4.0, 2.0 + 2.0**-20)


def split_traj(steps):
    """steps: list of (time gap index, distance gap index)"""
    Rs, ps, ts = [np.eye(3)], [np.zeros(3)], [10.0]
    for k, (ti, di) in enumerate(steps):
        d = np.zeros(3)
        d[k % 3] = GAP_D[di]
        ps.append(ps[-1] + d)
        ts.append(ts[-1] + GAP_T[ti])
        Rs.append(geom.rodrigues((0, 0, 1), 0.1 * (k + 1)))
    return Rs, ps, ts


def run_split(case):
    Rs, ps, ts = split_traj(case["steps"])
    n = len(ps)
    kind, thr, mode = case["kind"], case["thr"], case["mode"]
    timed = kind != "distance_path"
    t = common.make_traj(Rs, ps, ts if timed else None, mode)
    if case.get("pre") == "split+scale":
        # the same object was split before and then rescaled: the second
        # split must follow the *current* geometry
        t.split_distance_gaps(thr)
        t.distances
        t.scale(2.0)
        ps = [2.0 * p for p in ps]
    snap = common.snapshot(t)
    if kind == "time":
        parts = t.split_time_gaps(thr)
        size = [ts[k + 1] - ts[k] for k in range(n - 1)]
    elif kind in ("distance", "distance_path"):
        parts = t.split_distance_gaps(thr)
        size = [float(np.linalg.norm(ps[k + 1] - ps[k])) for k in range(n - 1)]
    else:
        parts = t.split_speed_outliers(thr)
        size = [float(np.linalg.norm(ps[k + 1] - ps[k])) / (ts[k + 1] - ts[k])
                for k in range(n - 1)]
    msgs = []
    if common.snapshot(t) != snap:
        msgs.append("split modified the trajectory")
    allids = []
    bounds = []
    for p in parts:
        # positions are unique along the path (all steps > 0)
        ids, err = kept_ids(p, Rs, ps, ts, timed)
        if err:
            return [err], False
        if not ids:
            return ["empty part"], False
        if ids != list(range(ids[0], ids[-1] + 1)):
            msgs.append("part is not a contiguous run: %s" % ids)
        bounds.append((ids[0], ids[-1]))
        allids += ids
        if type(p) is not type(t):
            msgs.append("part has type %s" % type(p).__name__)
    if allids != list(range(n)):
        msgs.append("concatenated parts %s do not reproduce the trajectory" %
                    allids)
        return msgs, False
    cuts = [b[1] for b in bounds[:-1]]  # cut between k and k+1
    for k in range(n - 1):
        if size[k] > thr and k not in cuts:
            msgs.append("step %d (%g > %g) remains inside a part" %
                        (k, size[k], thr))
        if size[k] <= thr and k in cuts:
            msgs.append("cut at step %d (%g <= %g)" % (k, size[k], thr))
    return msgs, len(parts) > 1


def shard_split(arg):
    seqs = arg
    acc = Acc()
    for steps in seqs:
        for kind, thrs in (("time", (0.25, 0.5, 1.0, 1.5, 2.0)),
                           ("distance", (0.5, 1.0, 2.0, 3.0, 4.0)),
                           ("distance_path", (1.0, 2.0)),
                           ("speed", (0.5, 1.0, 2.0, 4.0, 8.0))):
            for thr in thrs:
                mode = MODES[(len(steps) + int(thr * 4)) % 4]
                case = {"op": "split", "kind": kind, "thr": thr,
                        "steps": [list(s) for s in steps], "mode": mode}
                msgs, nt = run_split(case)
                _rec(acc, case, msgs, "split:" + kind, nt)
                if kind in ("distance", "distance_path", "speed"):
                    case = dict(case, pre="split+scale")
                    msgs, nt = run_split(case)
                    _rec(acc, case, msgs, "split-after-rescale:" + kind, nt)
    return acc


# ---------------------------------------------------------------------- merge
def run_merge(case):
    from evo.core import trajectory
    assign = case["assign"]  # per slot: tuple of trajectory indices
    ntraj = case["ntraj"]
    trajs, tags = [], []
    for j in range(ntraj):
        slots = [k for k, a in enumerate(assign) if j in a]
        if not slots:
            return [], False
        Rs, ps, _ = tagged(len(slots), base=100.0 * (j + 1))
        ts = [1.0 + 0.25 * k for k in slots]
        trajs.append(common.make_traj(Rs, ps, ts, MODES[(j + len(slots)) % 4]))
        tags += [(ts[i], Rs[i], ps[i]) for i in range(len(slots))]
    snaps = [common.snapshot(t) for t in trajs]
    m = trajectory.merge(trajs)
    msgs = []
    if [common.snapshot(t) for t in trajs] != snaps:
        msgs.append("merge modified an input trajectory")
    v = common.views(m)
    if v["n"] != len(tags) or len(v["stamps"]) != len(tags):
        return ["merged trajectory has %d poses, expected %d" %
                (v["n"], len(tags))], True
    st = v["stamps"]
    if any(b < a for a, b in zip(st, st[1:])):
        msgs.append("merged timestamps not sorted: %s" % st.tolist())
    used = set()
    for k in range(v["n"]):
        hit = None
        for idx, (t_, R_, p_) in enumerate(tags):
            if idx in used:
                continue
            if st[k] == t_ and np.array_equal(v["xyz"][k], p_) and \
                    common.close(geom.quat_wxyz_to_rot(v["quat"][k]), R_):
                hit = idx
                break
        if hit is None:
            msgs.append("merged pose %d (t=%g) is not an input pose with its "
                        "own timestamp" % (k, st[k]))
            break
        used.add(hit)
    return msgs, True


def shard_merge(arg):
    acc = Acc()
    for ntraj, assigns in arg:
        for assign in assigns:
            case = {"op": "merge", "ntraj": ntraj,
                    "assign": [list(a) for a in assign]}
            msgs, nt = run_merge(case)
            _rec(acc, case, msgs, "merge", nt)
    return acc


def merge_assignments(nslots, ntraj):
    """each slot goes to a non-empty subset of trajectories of size <= 2"""
    options = [c for r in (1, 2) for c in itertools.combinations(
        range(ntraj), r)]
    return list(itertools.product(options, repeat=nslots))


def shard_cli(cases):
    """evo_traj --downsample / --motion_filter over several input files of
    different lengths, in both orders: every file is down-sampled to
    min(N, its own count) / filtered by itself (C15's reference pipeline)"""
    import os
    import tempfile
    from mc.checks import c15
    acc = Acc()
    wd = tempfile.mkdtemp(dir=os.getcwd(), prefix="c11cli_")
    old = os.getcwd()
    os.chdir(wd)
    try:
        c15.write_fixture(wd)
        for case in cases:
            msgs, outcome = c15.run_point(case)
            acc.count("evaluations")
            acc.count("transitions")
            acc.count("nontrivial")
            acc.outcome("evo_traj/" + outcome.split(":")[0])
            if msgs:
                acc.violation("cli", "evo_traj %s: %s" % (
                    " ".join(c15.argv_of(case)[0]), "; ".join(msgs[:2])),
                    case, {"kind": "cli"})
    finally:
        os.chdir(old)
    return acc


def cli_cases():
    from mc.checks import c15
    out = []
    for order in (None, "swapped"):
        for ds in (None, 3, 5, 7, 9):
            for mf in (None, (2.5, 170.0), (100.0, 40.0)):
                for align in ("none", "sync"):
                    if ds is None and mf is None:
                        continue
                    out.append({"nfiles": 2, "order": order, "downsample": ds,
                                "motion_filter": mf, "merge": False,
                                "t_offset": 0.0, "align": align,
                                "n_to_align": -1, "transform": c15.TRANSF[0],
                                "project": None, "export": "tum",
                                "t_max_diff": 0.01})
    return out


def run(ctx):
    acc = pmap_acc(ctx, __name__, "shard_downsample",
                   shard(range(1, ctx.pick(41, 121)), 40))
    ml = ctx.pick(4, 5)
    mseqs = [s for k in range(1, ml + 1) for s in itertools.product(
        itertools.product(range(3), range(3)), repeat=k)]
    acc.merge(pmap_acc(ctx, __name__, "shard_motion", shard(mseqs, 64)))
    acc.merge(pmap_acc(ctx, __name__, "shard_crop",
                       [[(n, o)] for n in range(1, 7)
                        for o in ("sorted", "disordered", "negative")]))
    sl = ctx.pick(3, 4)
    sseqs = [s for k in range(1, sl + 1) for s in itertools.product(
        itertools.product(range(len(GAP_T)), range(len(GAP_D))), repeat=k)]
    acc.merge(pmap_acc(ctx, __name__, "shard_split", shard(sseqs, 64)))
    acc.merge(pmap_acc(ctx, __name__, "shard_cli", [cli_cases()]))
    mjobs = []
    for ntraj in (1, 2, 3):
        al = merge_assignments(ctx.pick(4, 5), ntraj)
        for s in shard(al, 16):
            mjobs.append([(ntraj, s)])
    acc.merge(pmap_acc(ctx, __name__, "shard_merge", mjobs))
    acc.counters["states"] = acc.counters["evaluations"]
    acc.rule = (
        "downsample: all (count 1..40 (120), N 1..count+2) x 4 storage/cache modes "
        "x timed/untimed; motion filter: all sequences of <= %d steps over "
        "lengths {0,1,2} x rotations {0,45,90 deg} x distance thresholds %s x "
        "angle thresholds %s; crop: n 1..6 x all (start,end) from stamps, "
        "None, between/outside values, start>end; splits: all sequences of <= "
        "%d steps over time gaps %s x distance gaps %s x 5 thresholds incl. "
        "exact hits x {time, distance, distance on a path, speed}; merge: all "
        "assignments of %d time slots to 1..3 trajectories (slots shared by "
        "two trajectories = equal stamps). non-trivial = something was "
        "removed / cut / merged" % (ml, MF_D, MF_A, sl, GAP_T, GAP_D,
                                    ctx.pick(4, 5)))
    return acc


def replay(part, case):
    if part == "cli":
        case = dict(case, transform=tuple(case["transform"]))
        if case.get("motion_filter"):
            case["motion_filter"] = tuple(case["motion_filter"])
        return [v["msg"] for v in shard_cli([case]).violations]
    if part == "motion_filter":
        case = dict(case, steps=[tuple(s) for s in case["steps"]])
        return run_motion_filter(case)[0]
    if part == "split":
        case = dict(case, steps=[tuple(s) for s in case["steps"]])
        return run_split(case)[0]
    if part == "merge":
        return run_merge(case)[0]
    if part == "downsample":
        a = shard_downsample([case["count"]])
    else:
        a = shard_crop([(case["n"], case.get("order", "sorted"))])
    return [v["msg"] for v in a.violations if v["case"] == case]
