"""
C09 - Lie-group helpers satisfy the group laws on all of SO(3), SE(3), Sim(3).
E1 over the hard rotation alphabet (angles within 1e-16..1e-3 of 0, within
1e-12 of pi, cube rotations, seed-dependent generic ones): all elements, all
pairs, all triples.
"""
import itertools
import math

import numpy as np

from mc import common
from mc.engine.core import Acc, pmap_acc, shard
from mc.refmodel import geom

TRANS = [np.array(t, dtype=float) for t in (
    (0, 0, 0), (1e-6, 0, 0), (1, 2, 3), (5e5 + .25, 5.4e6 + .5, 100.0),
    (-1e9, 1e9, 1e-3))]
# (scales within 1e-5 .. 1e-9 of 1: a similarity, not a rigid motion)
SCALES = [1e-4, 1e-2, 0.5, 1.0, 2.0, 1e2, 1e4, 1.000002, 0.9999998,
          1.0 + 1e-9,
          # not round in any number of decimals
          1e-4 / 3.0, 1e-2 / 7.0, 1e4 / 3.0]


def rotations(seed):
    return common.rot_hard(seed, generic=3)


def axis_angle_list():
    out = []
    for ax in common._HARD_AXES:
        a = np.array(ax, dtype=float)
        a /= np.linalg.norm(a)
        for ang in common._HARD_ANGLES:
            out.append((a, ang))
    return out


def check_unary(k, R, acc):
    from evo.core import lie_algebra as lie
    msgs = []
    # exp(log R) = R
    v = lie.so3_log(R)
    ang = lie.so3_log_angle(R)
    ang_ref = geom.rot_angle(R)
    if not (0.0 <= ang <= math.pi + 1e-15):
        msgs.append("angle %r outside [0, pi]" % ang)
    tol_ang = 1e-9 if ang_ref < 3.1 else 3e-8  # near pi: sqrt(eps) condition
    if abs(ang - ang_ref) > max(tol_ang, 0.0):
        msgs.append("so3_log_angle %.17g != %.17g" % (ang, ang_ref))
    # relative accuracy for tiny angles (zero only for the identity)
    if 0 < ang_ref < 1e-6 and abs(ang - ang_ref) > 1e-6 * ang_ref + 1e-18:
        msgs.append("tiny angle %.3g reported as %.3g" % (ang_ref, ang))
    if ang_ref > 1e-15 and ang == 0.0:
        msgs.append("angle 0 for a rotation different from the identity")
    if abs(np.linalg.norm(v) - ang) > 1e-12:
        msgs.append("|log R| differs from so3_log_angle")
    R2 = lie.so3_exp(v)
    if not common.close(R2, R):
        msgs.append("exp(log R) != R (max dev %.3g)" % np.abs(R2 - R).max())
    skew = lie.so3_log(R, return_skew=True)
    if not np.array_equal(lie.vee(skew), v) or not np.array_equal(
            lie.hat(v), skew):
        msgs.append("hat / vee are not mutually inverse")
    # ... against the definition (not only against each other)
    H = np.array([[0.0, -v[2], v[1]], [v[2], 0.0, -v[0]],
                  [-v[1], v[0], 0.0]])
    if not np.array_equal(np.asarray(lie.hat(v), dtype=float), H):
        msgs.append("hat(v) is not the skew-symmetric matrix of v")
    if not np.array_equal(np.asarray(lie.vee(H), dtype=float), v):
        msgs.append("vee of the skew-symmetric matrix of v is not v")
    if not common.close(np.asarray(skew, dtype=float), H):
        msgs.append("so3_log(R, return_skew=True) is not hat(so3_log(R))")
    if abs(lie.so3_log_angle(R, True) - math.degrees(ang)) > 1e-9:
        msgs.append("degrees variant inconsistent")
    if not lie.is_so3(R):
        msgs.append("genuine rotation rejected by is_so3")
    for t in TRANS:
        P = lie.se3(R, t)
        sc = max(1.0, np.abs(t).max())
        if not lie.is_se3(P) or not lie.is_sim3(P):
            msgs.append("genuine SE(3) element rejected")
        Pi = lie.se3_inverse(P)
        if not common.close(P @ Pi, np.eye(4), sc) or not common.close(
                Pi @ P, np.eye(4), sc):
            msgs.append("P * P^-1 != I for translation %s" % t.tolist())
        if not common.close(lie.relative_se3(P, P), np.eye(4), sc):
            msgs.append("rel(A, A) != I")
        for s in SCALES:
            S = lie.sim3(R, t, s)
            if not lie.is_sim3(S):
                msgs.append("genuine Sim(3) element (s=%g) rejected" % s)
            s2 = lie.sim3_scale(S)
            if abs(s2 - s) > 1e-12 * s:
                msgs.append("sim3_scale %r != %r" % (s2, s))
            Si = lie.sim3_inverse(S)
            if not common.close(S @ Si, np.eye(4), sc * max(1.0, 1 / s)) or \
                    not common.close(Si @ S, np.eye(4),
                                     sc * max(1.0, 1 / s)):
                msgs.append("S * S^-1 != I for s=%g t=%s" % (s, t.tolist()))
            acc.count("transitions", 4)
    # non-members
    bad = []
    M = np.diag([1.0, 1.0, -1.0])
    bad.append(("reflection", R @ M))
    bad.append(("point reflection", -R))
    for f in (1e-3, 1e-2, 0.5):
        bad.append(("scaled %g" % (1 + f), (1 + f) * R))
        bad.append(("scaled %g" % (1 - f), (1 - f) * R))
    for sh in (1e-3, 0.1):
        Sh = np.eye(3)
        Sh[0, 1] = sh
        bad.append(("sheared %g" % sh, R @ Sh))
    # shears of either sign in every off-diagonal position, on either side
    # (5e-4: three orders of magnitude beyond evo's 1e-6 tolerance, yet its
    # square is below it)
    for (i, j) in ((0, 1), (0, 2), (1, 0), (1, 2), (2, 0), (2, 1)):
        for sh in (-0.1, -1e-3, -5e-4, 5e-4):
            Sh = np.eye(3)
            Sh[i, j] = sh
            bad.append(("sheared %g at (%d,%d)" % (sh, i, j), R @ Sh))
            bad.append(("sheared (left) %g at (%d,%d)" % (sh, i, j), Sh @ R))
    bad.append(("one axis scaled", R @ np.diag([1.0, 1.0, 1.5])))
    for name, B in bad:
        if lie.is_so3(B):
            msgs.append("is_so3 accepts a %s matrix" % name)
        if lie.is_se3(lie.se3(B, TRANS[2])):
            msgs.append("is_se3 accepts a %s rotation block" % name)
        if name.startswith(("reflection", "point", "sheared", "one axis")):
            T4 = np.eye(4)
            T4[:3, :3] = B
            if lie.is_sim3(T4):
                msgs.append("is_sim3 accepts a %s block" % name)
            T4[:3, :3] = 2.0 * B
            if lie.is_sim3(T4):
                msgs.append("is_sim3 accepts a scaled %s block" % name)
        try:
            lie.so3_log(B)
            msgs.append("so3_log accepts a %s matrix" % name)
        except lie.LieAlgebraException:
            pass
        acc.count("transitions", 4)
    # near-miss blocks at every overall scale (the membership test must be
    # relative to the scale), and a wrong explicitly given scale
    for s in SCALES:
        for name, B in bad:
            if not name.startswith(("sheared", "one axis", "reflection",
                                    "point")):
                continue
            T4 = np.eye(4)
            T4[:3, :3] = s * B
            T4[:3, 3] = TRANS[2]
            if lie.is_sim3(T4):
                msgs.append("is_sim3 accepts a %s block at overall scale %g"
                            % (name, s))
            acc.count("transitions")
        S = lie.sim3(R, TRANS[2], s)
        if not lie.is_sim3(S, s):
            msgs.append("is_sim3(S, s) rejects the true scale %g" % s)
        for wrong in (1.5 * s, s / 1.5, 1.01 * s):
            if lie.is_sim3(S, wrong):
                msgs.append("is_sim3(S, %g) accepts a wrong scale (true %g)"
                            % (wrong, s))
        acc.count("transitions", 4)
    # rel(A, B) = A^-1 * B also for neighbouring poses (same or nearly the
    # same orientation, small steps at large coordinates)
    for t in TRANS:
        A = lie.se3(R, t)
        sc = max(1.0, np.abs(t).max())
        for dt in ((1.5, 0.0, 0.0), (1e-3, 0.0, 0.0), (0.0, 1e3, -2.0),
                   (1e-6 * sc, 0.0, 1e-6 * sc)):
            for dR in (np.eye(3), geom.rodrigues((0, 0, 1), 1e-6),
                       geom.rodrigues((1, 1, 0), 1e-3)):
                B = lie.se3(R @ dR, t + np.array(dt))
                got = lie.relative_se3(A, B)
                exp = geom.pose_inv(A) @ B
                if not common.close(got, exp, sc):
                    msgs.append("rel(A,B) != A^-1*B for neighbouring poses "
                                "(step %s at %s): max dev %.3g" %
                                (dt, t.tolist(), np.abs(got - exp).max()))
                acc.count("transitions")
    for row in ((0, 0, 0, 1 + 1e-9), (1e-12, 0, 0, 1), (0, 0, 0, 0.5),
                (0, 0, 1, 1)):
        P = lie.se3(R, TRANS[2])
        P[3, :] = row
        if lie.is_se3(P) or lie.is_sim3(P):
            msgs.append("wrong bottom row %s accepted" % (row, ))
    return msgs


def shard_unary(arg):
    seed, idxs = arg
    rots = rotations(seed)
    acc = Acc()
    for k in idxs:
        msgs = check_unary(k, rots[k], acc)
        acc.count("evaluations")
        acc.count("transitions", 8)
        a = geom.rot_angle(rots[k])
        acc.outcome("angle<1e-6" if a < 1e-6 else "angle>pi-1e-6"
                    if a > math.pi - 1e-6 else "cube-rotation"
                    if np.array_equal(np.round(rots[k]), rots[k])
                    else "generic")
        if a < 1e-3 or a > math.pi - 1e-3:
            acc.count("nontrivial")
        if msgs:
            acc.violation("unary", "rotation #%d (angle %.17g): %s" %
                          (k, a, "; ".join(msgs[:3])), {"seed": seed, "k": k},
                          {"kind": "unary"})
        elif k % 17 == 0:
            acc.sample({"rotation_index": k, "angle": a})
    return acc


def int_dtype_part():
    """group elements stored in integer arrays (cube rotations x integer
    scale x integer translation, e.g. loaded from an .npy file)"""
    from evo.core import lie_algebra as lie
    acc = Acc()
    for k, R in enumerate(geom.rot24()):
        for s in (1, 2, 5):
            for dt in (np.int64, np.int32):
                S = np.eye(4)
                S[:3, :3] = s * R
                S[:3, 3] = [4, -6, 8]
                Si = S.astype(dt)
                acc.count("evaluations")
                acc.count("transitions", 4)
                msgs = []
                if not lie.is_sim3(Si):
                    msgs.append("integer-typed Sim(3) element rejected")
                if abs(lie.sim3_scale(Si) - s) > 1e-12 * s:
                    msgs.append("sim3_scale of an integer matrix")
                inv = lie.sim3_inverse(Si)
                if not common.close(np.asarray(inv, dtype=float) @ S,
                                    np.eye(4), 10):
                    msgs.append("sim3_inverse of an integer-typed matrix "
                                "(scale %d) is not its inverse" % s)
                if s == 1:
                    inv = lie.se3_inverse(Si)
                    if not common.close(np.asarray(inv, dtype=float) @ S,
                                        np.eye(4), 10):
                        msgs.append("se3_inverse of an integer-typed matrix")
                    rel = lie.relative_se3(Si, Si)
                    if not common.close(rel, np.eye(4), 10):
                        msgs.append("rel(A,A) of an integer-typed matrix")
                if msgs:
                    acc.violation("int-dtype", "cube rotation #%d, scale %d, "
                                  "%s: %s" % (k, s, dt.__name__,
                                              "; ".join(msgs)),
                                  {"k": k, "s": s, "dtype": dt.__name__},
                                  {"kind": "int-dtype"})
    return acc


def shard_logexp(arg):
    """log(exp v) = v for |v| < pi, rotation-equal at pi"""
    from evo.core import lie_algebra as lie
    acc = Acc()
    for a, ang in axis_angle_list():
        v = a * ang
        R = lie.so3_exp(v)
        v2 = lie.so3_log(R)
        acc.count("evaluations")
        acc.count("transitions", 2)
        msgs = []
        Rm = geom.rodrigues(a, ang)
        if not common.close(R, Rm):
            msgs.append("so3_exp differs from Rodrigues' formula")
        if ang < math.pi - 1e-6:
            if np.abs(v2 - v).max() > 1e-9 * max(1.0, ang) and \
                    np.abs(v2 - v).max() > 1e-7 * ang:
                msgs.append("log(exp v) != v")
            if 0 < ang < 1e-6 and np.abs(v2 - v).max() > 1e-6 * ang:
                msgs.append("log(exp v) loses tiny rotation vectors")
        else:
            if not common.close(lie.so3_exp(v2), R):
                msgs.append("log(exp v) is not rotation-equal at pi")
        if msgs:
            acc.violation("logexp", "axis %s angle %.17g: %s" %
                          (a.tolist(), ang, "; ".join(msgs)),
                          {"axis": a.tolist(), "angle": ang},
                          {"kind": "logexp"})
    return acc


def metric_matrix(seed):
    from evo.core import lie_algebra as lie
    rots = rotations(seed)
    n = len(rots)
    D = np.zeros((n, n))
    for i in range(n):
        for j in range(n):
            D[i, j] = lie.so3_log_angle(lie.relative_so3(rots[i], rots[j]))
    return D


def shard_pairs(arg):
    """metric axioms on all pairs (rows of the distance matrix) + invariance"""
    from evo.core import lie_algebra as lie
    seed, rows = arg
    rots = rotations(seed)
    n = len(rots)
    G = geom.rot24()[::3] + [geom.rodrigues((1, -2, 3), 1.1),
                             geom.rodrigues((1, 1, 1), math.pi - 1e-8)]
    acc = Acc()
    for i in rows:
        for j in range(n):
            A, B = rots[i], rots[j]
            d = lie.so3_log_angle(lie.relative_so3(A, B))
            d_ref = geom.rot_angle(A.T @ B)
            acc.count("evaluations")
            acc.count("transitions")
            msgs = []
            tol = 1e-9 if d_ref < 3.1 else 3e-8
            if abs(d - d_ref) > tol:
                msgs.append("d=%.17g, definition %.17g" % (d, d_ref))
            d2 = lie.so3_log_angle(lie.relative_so3(B, A))
            if abs(d - d2) > 2 * tol:
                msgs.append("not symmetric: %.17g vs %.17g" % (d, d2))
            same = np.array_equal(A, B)
            if same and d != 0.0 and d > 1e-15:
                msgs.append("d(A, A) = %.3g" % d)
            if d == 0.0 and d_ref > 1e-12:
                msgs.append("d = 0 for different rotations (true angle %.3g)"
                            % d_ref)
            if not (0.0 <= d <= math.pi + 1e-15):
                msgs.append("d outside [0, pi]")
            if (i + j) % 7 == 0:
                for g in G:
                    dl = lie.so3_log_angle(lie.relative_so3(g @ A, g @ B))
                    dr = lie.so3_log_angle(lie.relative_so3(A @ g, B @ g))
                    acc.count("transitions", 2)
                    tolg = 5e-8 if d_ref > 3.1 or d_ref < 1e-7 else 1e-9
                    if abs(dl - d) > tolg or abs(dr - d) > tolg:
                        msgs.append("not bi-invariant: %.17g / %.17g vs %.17g"
                                    % (dl, dr, d))
                        break
            if d_ref < 1e-3 or d_ref > math.pi - 1e-3:
                acc.count("nontrivial")
            if msgs:
                acc.violation("pairs", "rotations #%d,#%d: %s" %
                              (i, j, "; ".join(msgs[:2])),
                              {"seed": seed, "i": i, "j": j},
                              {"kind": "metric"})
    return acc


def run(ctx):
    seed = ctx.seed
    n = len(rotations(seed))
    acc = pmap_acc(ctx, __name__, "shard_unary",
                   [(seed, s) for s in shard(range(n), 32)])
    acc.merge(pmap_acc(ctx, __name__, "shard_logexp", [0]))
    acc.merge(int_dtype_part())
    acc.merge(pmap_acc(ctx, __name__, "shard_pairs",
                       [(seed, s) for s in shard(range(n), 32)]))
    # triangle inequality over all triples, vectorised on the implementation's
    # own distance matrix
    D = metric_matrix(seed)
    acc.count("transitions", n * n)
    worst = 0.0
    for k in range(n):
        # D[i,j] <= D[i,k] + D[k,j]
        viol = D - (D[:, [k]] + D[[k], :])
        worst = max(worst, float(viol.max()))
        bad = np.argwhere(viol > 1e-7)
        for i, j in bad[:3]:
            acc.violation("triangle", "d(%d,%d)=%.17g > d(%d,%d)+d(%d,%d)=%.17g"
                          % (i, j, D[i, j], i, k, k, j, D[i, k] + D[k, j]),
                          {"seed": seed, "i": int(i), "j": int(j),
                           "k": int(k)}, {"kind": "triangle"})
    acc.count("evaluations", n**3)
    acc.notes["triangle_worst_excess"] = worst
    acc.counters["states"] = acc.counters["evaluations"]
    acc.rule = (
        "%d rotations: Rodrigues(axis in {x,y,z,(1,1,1),(1,-2,3)}, angle in "
        "{0,1e-16,1e-12,1e-8,1e-3,k*pi/8,pi-1e-3,pi-1e-8,pi-1e-12,pi}) + 24 "
        "cube rotations + 3 seed-dependent generic; each x 5 translations "
        "(1e-6..1e9) x 7 scales (1e-4..1e4) x 60 near-miss matrices (reflections, scalings, shears of either sign in every off-diagonal position on either side, one axis scaled) x 4 bottom "
        "rows; all %d ordered pairs (metric, symmetry, bi-invariance under 10 "
        "group elements on every 7th pair); all %d triples (triangle "
        "inequality). non-trivial = angle within 1e-3 of 0 or pi" %
        (n, n * n, n**3))
    acc.assumptions = [
        "oracle angle: atan2(|vee(R - R^T)|/2, (tr R - 1)/2); tolerance 1e-9 "
        "(3e-8 within 0.04 rad of pi, where any double-precision matrix "
        "determines the angle only to ~sqrt(eps))",
        "near-miss matrices at distance 1e-9..1e-5 from the group are not "
        "tested: the property does not fix the acceptance radius",
    ]
    return acc


def replay(part, case):
    from evo.core import lie_algebra as lie
    if part == "unary":
        return check_unary(case["k"], rotations(case["seed"])[case["k"]],
                           Acc())
    if part == "int-dtype":
        return [v["msg"] for v in int_dtype_part().violations
                if v["case"] == case]
    if part == "logexp":
        a = shard_logexp(0)
        return [v["msg"] for v in a.violations if v["case"] == case]
    if part == "pairs":
        a = shard_pairs((case["seed"], [case["i"]]))
        return [v["msg"] for v in a.violations
                if v["case"]["j"] == case["j"]]
    if part == "triangle":
        D = metric_matrix(case["seed"])
        i, j, k = case["i"], case["j"], case["k"]
        return ["triangle inequality violated"] if D[i, j] > D[i, k] + D[
            k, j] + 1e-7 else []
    return []
