"""
C20 - plots draw the trajectory's own coordinates on the labelled axes.

E1 over plot modes x pose counts x length units x timestamps / start time x
marker / correspondence settings: after every plot call the data of the
matplotlib artists is read back and compared with the coordinates selected by
the *name* of the mode (letter -> column), in pose order.
"""
import itertools
import math

import numpy as np

from mc import common
from mc.engine.core import Acc, pmap_acc, shard
from mc.refmodel import geom

MODES = ("xy", "xz", "yx", "yz", "zx", "zy", "xyz")
COL = {"x": 0, "y": 1, "z": 2}
UNITS = ("m", "mm", "cm", "km")


def tagged(n, k=0):
    Rs = [geom.rodrigues((0, 0, 1), 0.4 * i + 0.2 * k) @ geom.rodrigues(
        (1, 0, 0), 0.3 * i) @ geom.rodrigues((0, 1, 0), 0.15 * (i + k))
        for i in range(n)]
    ps = [np.array([100.0 * (i + 1) + 7 * k, 10.0 * (i + 1) + 3 * (i % 2) + k,
                    1.0 * (i + 1) + 0.25 * i * i]) for i in range(n)]
    ts = [1000.0 + 0.5 * i + 0.125 * (i % 2) for i in range(n)]
    return Rs, ps, ts


def _line_data(line, three):
    if three:
        x, y, z = line.get_data_3d()
        return np.array([x, y, z], dtype=float).T
    return np.array([line.get_xdata(), line.get_ydata()], dtype=float).T


def _segments(coll, three):
    if three:
        return [np.array(s, dtype=float) for s in coll._segments3d]
    return [np.array(s, dtype=float) for s in coll.get_segments()]


def _offsets(coll, three):
    if three:
        x, y, z = coll._offsets3d
        return np.array([np.asarray(x, dtype=float),
                         np.asarray(y, dtype=float),
                         np.asarray(z, dtype=float)]).T
    return np.array(coll.get_offsets(), dtype=float)


def sel(ps, mode):
    cols = [COL[c] for c in mode]
    return np.array([[p[c] for c in cols] for p in ps])


def eq(a, b, tol=1e-9):
    a, b = np.asarray(a, dtype=float), np.asarray(b, dtype=float)
    return a.shape == b.shape and (a.size == 0 or np.abs(a - b).max() <= tol)


def run_map_case(case):
    """trajectory-map plots: traj, markers, colormap, axes, edges, labels"""
    import matplotlib.pyplot as plt
    from matplotlib.collections import LineCollection, PathCollection
    from evo.tools import plot
    from evo.core.units import Unit
    mode, n = case["mode"], case["n"]
    three = mode == "xyz"
    Rs, ps, ts = tagged(n)
    R2, p2, _ = tagged(n, k=1)
    if case.get("stamps") == "reversed":
        # time-reversed stamps (or a backwards jump): pose order is what the
        # map plots follow
        ts = ts[::-1]
    elif case.get("stamps") == "jump":
        ts = ts[1:] + ts[:1]
    timed = case["timed"]
    if case["storage"] == "int":
        # positions handed over as an integer array (waypoint grid): the
        # constructor keeps the dtype; the second trajectory is fractional
        from evo.core.trajectory import PosePath3D, PoseTrajectory3D
        ps = [np.round(p) for p in ps]
        p2 = [p + 0.37 for p in p2]
        qa = np.array([geom.rot_to_quat_wxyz(R) for R in Rs])
        ia = np.array(ps).astype(np.int64)
        a = PoseTrajectory3D(ia, qa, np.array(ts)) if timed else \
            PosePath3D(ia, qa)
        b = common.make_traj(R2, p2, ts if timed else None, "quat")
    else:
        a = common.make_traj(Rs, ps, ts if timed else None, case["storage"])
        b = common.make_traj(R2, p2, ts if timed else None, case["storage"])
    pm = plot.PlotMode[mode]
    msgs = []
    fig = plt.figure()
    # another figure is opened in between: the figure handed to evo is not
    # pyplot's "current" one (a multi-figure application)
    decoy = plt.figure()
    decoy_ax = decoy.add_subplot(111)
    try:
        ax = plot.prepare_axis(fig, pm, length_unit=Unit(case["unit"]))
        if decoy_ax.get_xlabel() or decoy_ax.get_ylabel() or len(
                decoy.axes) != 1:
            msgs.append("prepare_axis wrote to a figure it was not given")
        want = ["$%s$ (%s)" % (c, case["unit"]) for c in mode]
        got = [ax.get_xlabel(), ax.get_ylabel()] + ([ax.get_zlabel()]
                                                    if three else [])
        if got != want:
            msgs.append("axis labels %s, the mode %s names %s" %
                        (got, mode, want))
        # the tick labels must be in the labelled unit: the data stays in
        # metres, a formatter converts (2 m -> '2000' for mm)
        factor = {"m": 1.0, "mm": 1e-3, "cm": 1e-2, "km": 1e3}[case["unit"]]
        axes_ = [ax.xaxis, ax.yaxis] + ([ax.zaxis] if three else [])
        for axis in (axes_ if case["unit"] != "m" else []):
            fmt_ = axis.get_major_formatter()
            for v in (2.0, 250.0):
                axis.set_major_formatter(fmt_)
                lab = fmt_(v, 0)
                try:
                    shown = float(str(lab).replace("\u2212", "-"))
                except ValueError:
                    msgs.append("tick label %r is not a number" % lab)
                    break
                if case["unit"] != "m" and abs(shown - v / factor) > \
                        1e-6 * abs(v / factor):
                    msgs.append("tick label for %g m is %r although the "
                                "axis is labelled in %s" %
                                (v, lab, case["unit"]))
                    break
        # --- trajectory line + start/end markers
        plot.traj(ax, pm, a, plot_start_end_markers=case["markers"])
        if len(ax.lines) != 1:
            msgs.append("traj drew %d lines" % len(ax.lines))
        else:
            d = _line_data(ax.lines[0], three)
            if not eq(d, sel(ps, mode)):
                msgs.append("trajectory line is not at the %s coordinates in "
                            "pose order: %s" % (mode, d.tolist()[:2]))
        sc = [c for c in ax.collections if isinstance(c, PathCollection)]
        if case["markers"]:
            if len(sc) != 2:
                msgs.append("expected start and end marker, got %d" % len(sc))
            else:
                s0, s1 = _offsets(sc[0], three), _offsets(sc[1], three)
                if not eq(s0, sel(ps[:1], mode)) or not eq(
                        s1, sel(ps[-1:], mode)):
                    msgs.append("start/end markers not at the first/last "
                                "pose: %s %s" % (s0.tolist(), s1.tolist()))
        elif sc:
            msgs.append("markers drawn although disabled")
        # --- the marker function itself, with the caller's own symbols
        # (also one symbol for both ends, told apart by colour)
        for syms in (("o", "x"), ("o", "o"), ("^", "^")):
            fig2 = plt.figure()
            try:
                ax2 = plot.prepare_axis(fig2, pm)
                plot.add_start_end_markers(ax2, pm, a, start_symbol=syms[0],
                                           end_symbol=syms[1])
                sc2 = [c for c in ax2.collections
                       if isinstance(c, PathCollection)]
                if len(sc2) != 2:
                    msgs.append("add_start_end_markers%s drew %d marker(s), "
                                "expected start and end" % (syms, len(sc2)))
                elif not eq(_offsets(sc2[0], three), sel(ps[:1], mode)) or \
                        not eq(_offsets(sc2[1], three), sel(ps[-1:], mode)):
                    msgs.append("add_start_end_markers%s: markers not at the "
                                "first / last pose" % (syms, ))
            finally:
                plt.close(fig2)
        # --- colour-mapped error segments
        ncoll = len(ax.collections)
        err = np.linspace(0.5, 2.0, n)
        plot.traj_colormap(ax, b, err, pm, 0.5, 2.0, fig=fig,
                           plot_start_end_markers=False)
        lcs = [c for c in ax.collections[ncoll:]
               if not isinstance(c, PathCollection)]
        if len(lcs) != 1:
            msgs.append("traj_colormap added %d line collections" % len(lcs))
        else:
            segs = _segments(lcs[0], three)
            exp = sel(p2, mode)
            if len(segs) != n - 1 or not all(
                    eq(s, exp[k:k + 2]) for k, s in enumerate(segs)):
                msgs.append("colour-mapped segments are not consecutive pose "
                            "pairs at the %s coordinates (%d segments for %d "
                            "poses)" % (mode, len(segs), n))
        # --- coordinate frame markers
        ncoll = len(ax.collections)
        plot.draw_coordinate_axes(ax, a, pm, case["axis_scale"])
        new = ax.collections[ncoll:]
        if case["axis_scale"] <= 0:
            if new:
                msgs.append("axis markers drawn with scale 0")
        elif len(new) != 1:
            msgs.append("draw_coordinate_axes added %d collections" %
                        len(new))
        else:
            segs = _segments(new[0], three)
            exp = []
            for axis in range(3):
                for R, p in zip(Rs, ps):
                    e = np.zeros(3)
                    e[axis] = case["axis_scale"]
                    exp.append(sel([p, p + R @ e], mode))
            if len(segs) != 3 * n or not all(eq(s, e_)
                                             for s, e_ in zip(segs, exp)):
                msgs.append("coordinate-frame markers do not start at the "
                            "pose positions / point along the pose axes (%d "
                            "markers for %d poses)" % (len(segs), n))
        # --- correspondence edges
        ncoll = len(ax.collections)
        if case["edges"]:
            plot.draw_correspondence_edges(ax, a, b, pm)
            new = ax.collections[ncoll:]
            if len(new) != 1:
                msgs.append("correspondence edges: %d collections" % len(new))
            else:
                segs = _segments(new[0], three)
                exp = [sel([p, q], mode) for p, q in zip(ps, p2)]
                if len(segs) != n or not all(eq(s, e_)
                                             for s, e_ in zip(segs, exp)):
                    msgs.append("correspondence edges do not connect pose k "
                                "of both trajectories (%d edges for %d poses)"
                                % (len(segs), n))
    finally:
        plt.close(fig)
        plt.close(decoy)
    return msgs


def run_series_case(case):
    """xyz / rpy / speed / error-array plots, called in sequence on the same
    trajectory objects (as evo_traj does)"""
    import matplotlib.pyplot as plt
    from evo.tools import plot
    from evo.core.units import Unit
    from evo.core import transformations as tr
    n = case["n"]
    Rs, ps, ts = tagged(n)
    timed = case["timed"]
    start = case["start"]
    t = common.make_traj(Rs, ps, ts if timed else None, case["storage"])
    x_exp = (np.array(ts) - (start or 0.0)) if timed else np.arange(float(n))
    msgs = []
    figs = []
    try:
        for rep in range(2):  # second round exposes in-place modifications
            fig, axarr = plt.subplots(3)
            figs.append(fig)
            plot.traj_xyz(axarr, t, start_timestamp=start,
                          length_unit=Unit(case["unit"]))
            for i in range(3):
                ln = axarr[i].lines
                if len(ln) != 1:
                    msgs.append("traj_xyz: %d lines in subplot %d" %
                                (len(ln), i))
                    continue
                if not eq(ln[0].get_xdata(), x_exp) or not eq(
                        ln[0].get_ydata(), [p[i] for p in ps]):
                    msgs.append("traj_xyz (call %d): subplot %d does not "
                                "show coordinate %s against %s" %
                                (rep + 1, i, "xyz"[i], "the shifted "
                                 "timestamps" if timed else "the pose index"))
                want = "$%s$ (%s)" % ("xyz"[i], case["unit"])
                if axarr[i].get_ylabel() != want:
                    msgs.append("traj_xyz: ylabel %r != %r" %
                                (axarr[i].get_ylabel(), want))
            if axarr[2].get_xlabel() != ("$t$ (s)" if timed else "index"):
                msgs.append("traj_xyz: xlabel %r" % axarr[2].get_xlabel())
            if case["unit"] != "m" and rep == 0:
                factor = {"mm": 1e-3, "cm": 1e-2, "km": 1e3}[case["unit"]]
                for i in range(3):
                    lab = axarr[i].yaxis.get_major_formatter()(2.0, 0)
                    try:
                        ok = abs(float(str(lab).replace("\u2212", "-")) -
                                 2.0 / factor) <= 1e-6 * 2.0 / factor
                    except ValueError:
                        ok = False
                    if not ok:
                        msgs.append("traj_xyz: tick label for 2 m is %r on "
                                    "an axis labelled in %s" %
                                    (lab, case["unit"]))
            fig, axarr = plt.subplots(3)
            figs.append(fig)
            from evo.tools.settings import SETTINGS
            seq = case.get("euler", "sxyz")
            old_seq = SETTINGS.euler_angle_sequence
            dict.__setitem__(SETTINGS, "euler_angle_sequence", seq)
            try:
                plot.traj_rpy(axarr, t, start_timestamp=start)
            finally:
                dict.__setitem__(SETTINGS, "euler_angle_sequence", old_seq)
            ang = np.array([tr.euler_from_matrix(geom.pose(R, p), seq)
                            for R, p in zip(Rs, ps)])
            for i, name in enumerate(("roll", "pitch", "yaw")):
                ln = axarr[i].lines
                if len(ln) != 1 or not eq(ln[0].get_xdata(), x_exp) or \
                        not eq(ln[0].get_ydata(), np.degrees(ang[:, i]),
                               1e-7):
                    msgs.append("traj_rpy (call %d): subplot %d does not "
                                "show %s in degrees against the %s" %
                                (rep + 1, i, name, "shifted timestamps"
                                 if timed else "pose index"))
                if name not in axarr[i].get_ylabel():
                    msgs.append("traj_rpy: ylabel %r lacks %s" %
                                (axarr[i].get_ylabel(), name))
            if timed:
                fig = plt.figure()
                figs.append(fig)
                plot.speeds(fig.gca(), t, start_timestamp=start)
                ln = fig.gca().lines
                sp = [np.linalg.norm(ps[k + 1] - ps[k]) / (ts[k + 1] - ts[k])
                      for k in range(n - 1)]
                if len(ln) != 1 or not eq(ln[0].get_xdata(), x_exp[1:]) or \
                        not eq(ln[0].get_ydata(), sp):
                    msgs.append("speeds (call %d): not the speed between "
                                "poses against the newer pose's shifted "
                                "timestamp" % (rep + 1))
        # error array
        err = np.array([0.5 + 0.25 * k * ((-1)**k) for k in range(n)])
        xs = np.array([10.0 + 2.0 * k for k in range(n)])
        for x_array in (None, xs):
            for cumulative in (False, True):
                fig = plt.figure()
                figs.append(fig)
                plot.error_array(fig.gca(), err, x_array=x_array,
                                 cumulative=cumulative, name="err",
                                 xlabel="the x", title="T")
                ln = fig.gca().lines
                y = np.cumsum(err) if cumulative else err
                x = np.arange(float(n)) if x_array is None else xs
                if len(ln) != 1 or not eq(ln[0].get_xdata(), x) or not eq(
                        ln[0].get_ydata(), y):
                    msgs.append("error_array(x_array=%s, cumulative=%s): "
                                "values not drawn against the given x array "
                                "in order" % (x_array is not None,
                                              cumulative))
                if fig.gca().get_xlabel() != "the x":
                    msgs.append("error_array: xlabel %r" %
                                fig.gca().get_xlabel())
    finally:
        for f in figs:
            plt.close(f)
    return msgs


def run_multi_case(case):
    """plot.trajectories(): several trajectories in one axis"""
    import matplotlib.pyplot as plt
    from evo.tools import plot
    mode = case["mode"]
    three = mode == "xyz"
    pm = plot.PlotMode[mode]
    trajs, exps = {}, []
    for k in range(case["count"]):
        Rs, ps, ts = tagged(case["n"], k)
        trajs["t%d" % k] = common.make_traj(Rs, ps, ts, "quat")
        exps.append(sel(ps, mode))
    fig = plt.figure()
    msgs = []
    try:
        cont = case["container"]
        vals = list(trajs.values())
        arg = {"dict": lambda: trajs, "list": lambda: vals,
               "single": lambda: trajs["t0"], "tuple": lambda: tuple(vals),
               "generator": lambda: (t for t in vals),
               "iterator": lambda: iter(vals),
               "dict_values": lambda: trajs.values()}[cont]()
        plot.trajectories(fig, arg, pm)
        ax = fig.axes[0]
        nexp = 1 if case["container"] == "single" else case["count"]
        if len(ax.lines) != nexp:
            msgs.append("trajectories(): %d lines for %d trajectories" %
                        (len(ax.lines), nexp))
        else:
            for k, ln in enumerate(ax.lines):
                if not eq(_line_data(ln, three), exps[k]):
                    msgs.append("trajectories(): line %d is not trajectory "
                                "%d at the %s coordinates" % (k, k, mode))
    finally:
        plt.close(fig)
    return msgs


def shard_cases(cases):
    acc = Acc()
    for kind, case in cases:
        if kind == "map":
            msgs = run_map_case(case)
        elif kind == "series":
            msgs = run_series_case(case)
        else:
            msgs = run_multi_case(case)
        acc.count("evaluations")
        acc.count("transitions")
        acc.outcome(kind)
        acc.count("nontrivial")
        if msgs:
            acc.violation(kind, "%s: %s" % (case, "; ".join(msgs[:2])), case,
                          {"kind": kind})
        elif acc.counters["evaluations"] % 53 == 1:
            acc.sample({"kind": kind, "case": case})
    return acc


def all_cases(thorough):
    cases = []
    ns = (2, 3, 4) + ((50, ) if thorough else ())
    for mode in MODES:
        for n in ns:
            for timed in (True, False):
                for markers in (True, False):
                    for axis_scale in (0.0, 0.1):
                        for edges in (True, False):
                            k = len(cases)
                            cases.append(("map", {
                                "mode": mode, "n": n, "timed": timed,
                                "markers": markers, "axis_scale": axis_scale,
                                "edges": edges, "unit": UNITS[k % 4],
                                "storage": ("quat", "se3")[k % 2]}))
        for unit in UNITS:
            cases.append(("map", {"mode": mode, "n": 3, "timed": True,
                                  "markers": True, "axis_scale": 0.1,
                                  "edges": True, "unit": unit,
                                  "storage": "se3+read"}))
        for flip in (False, True):
            cases.append(("map", {"mode": mode, "n": 3, "timed": flip,
                                  "markers": True, "axis_scale": 0.1,
                                  "edges": True, "unit": "m",
                                  "storage": "int"}))
        for stamps in ("reversed", "jump"):
            for n in (2, 3, 4):
                cases.append(("map", {"mode": mode, "n": n, "timed": True,
                                      "markers": True, "axis_scale": 0.1,
                                      "edges": True, "unit": "m",
                                      "storage": "quat", "stamps": stamps}))
        for count in (1, 2, 3):
            for container in ("dict", "list", "single", "tuple", "generator",
                              "iterator", "dict_values"):
                cases.append(("multi", {"mode": mode, "n": 3, "count": count,
                                        "container": container}))
    for n in ns:
        for timed in (True, False):
            for start in (None, 0.0, 1000.0, 999.75):
                for unit in UNITS if thorough else UNITS[:2]:
                    for storage in ("quat", "se3"):
                        cases.append(("series", {"n": n, "timed": timed,
                                                 "start": start, "unit": unit,
                                                 "storage": storage,
                                                 "euler": ("sxyz", "szyx")[
                                                     len(cases) % 2]}))
    return cases


def run(ctx):
    cases = all_cases(ctx.thorough)
    acc = pmap_acc(ctx, __name__, "shard_cases", shard(cases, ctx.jobs * 2))
    acc.counters["states"] = acc.counters["evaluations"]
    acc.rule = (
        "map plots: 7 plot modes x poses {2,3,4%s} x with/without timestamps "
        "x start/end markers x axis-marker scale {0, 0.1} x correspondence "
        "edges x 4 length units (cycled + full per mode) x storage mode: "
        "trajectory line, markers, colour-mapped segments, coordinate-frame "
        "markers, correspondence edges and axis labels read back from the "
        "artists; series plots: xyz / rpy / speeds (each called twice on the "
        "same object) and error_array (x array / index, cumulative) x start "
        "time {None, 0, first stamp, earlier}; plot.trajectories() for dict / "
        "list / single. Tagged coordinates (x hundreds, y tens, z units) make "
        "any axis swap visible." % (",50" if ctx.thorough else ""))
    acc.assumptions = [
        "artist data is read through Line2D/Line3D data, LineCollection "
        "segments (_segments3d in 3-D) and scatter offsets (_offsets3d)",
    ]
    return acc


def replay(part, case):
    if part == "map":
        return run_map_case(case)
    if part == "series":
        return run_series_case(case)
    return run_multi_case(case)
