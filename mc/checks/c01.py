"""
C01 - APE values equal the mathematical definition, pose by pose.

E1: all ordered pairs of the hard pose alphabet x 6 relations on the real
metrics.APE (both storage modes), all short sequences (order, refusals),
metamorphic corollaries; E4: evo_ape over an option lattice against the
reference pipeline, reading error_array / timestamps back from the saved zip.
"""
import itertools
import json
import math
import os
import tempfile

import numpy as np

from mc import common
from mc.checks import ape_rpe_common as arc
from mc.engine import cli, lattice
from mc.engine.core import Acc, pmap_acc, shard
from mc.refmodel import geom
from mc.refmodel import pipeline as pl

RELS = ["full_transformation", "translation_part", "rotation_part",
        "rotation_angle_rad", "rotation_angle_deg", "point_distance"]


def _ape(ref, est, relation):
    from evo.core import metrics
    m = metrics.APE(metrics.PoseRelation[relation])
    m.process_data((ref, est))
    return m


def tol_for(relation, scale):
    if relation in ("rotation_angle_rad", "rotation_part"):
        return 1e-9
    if relation == "rotation_angle_deg":
        return 1e-7
    return 1e-9 * max(1.0, scale)


def shard_core(arg):
    """all pairs (ref pose i, est pose j) i from a slice: one trajectory pair
    holds the whole row, so value k must belong to pair k"""
    seed, rows, mode = arg
    rots = common.rot_hard(seed, 3)
    poss = common.pos_hard(seed, 1)
    acc = Acc()
    nR, nP = len(rots), len(poss)
    for i in rows:
        # rotation relations: ref rotation i against all est rotations,
        # positions cycle through the hard positions
        Rr = [rots[i]] * nR
        pr = [poss[(i + k) % nP] for k in range(nR)]
        Re = list(rots)
        pe = [poss[(2 * i + 3 * k + 1) % nP] for k in range(nR)]
        ref = common.make_traj(Rr, pr, None, mode)
        est = common.make_traj(Re, pe, None, mode)
        snap = (common.snapshot(ref), common.snapshot(est))
        scale = max(np.abs(p).max() for p in poss)
        for rel in RELS:
            m = _ape(ref, est, rel)
            err = np.array(m.error, dtype=float)
            acc.count("transitions")
            if err.shape != (nR, ):
                acc.violation("core", "%s: %d values for %d poses" %
                              (rel, err.size, nR), {"seed": seed, "row": i,
                                                    "mode": mode, "rel": rel},
                              {"kind": "count"})
                continue
            for k in range(nR):
                exp = arc.ape_value(rel, geom.pose(Rr[k], pr[k]),
                                    geom.pose(Re[k], pe[k]))
                acc.count("evaluations")
                ang = geom.rot_angle(Rr[k].T @ Re[k])
                if ang < 1e-6 or ang > math.pi - 1e-6:
                    acc.count("nontrivial")
                tol = tol_for(rel, scale)
                bad = abs(err[k] - exp) > tol
                # tiny angles: relative accuracy (a zero must be a zero only
                # for equal rotations)
                if rel == "rotation_angle_rad" and 0 < exp < 1e-6 and \
                        abs(err[k] - exp) > 1e-6 * exp + 4e-16:
                    bad = True
                if rel.startswith("rotation_angle") and not (
                        0.0 <= err[k] <= (math.pi if rel.endswith("rad")
                                          else 180.0) + 1e-12):
                    bad = True
                if bad:
                    acc.violation(
                        "core", "%s value %d = %.17g, definition gives %.17g "
                        "(relative rotation angle %.3g)" %
                        (rel, k, err[k], exp, ang),
                        {"seed": seed, "row": i, "mode": mode, "rel": rel,
                         "k": k}, {"kind": "value", "rel": rel})
                    break
        if (common.snapshot(ref), common.snapshot(est)) != snap:
            acc.violation("core", "process_data modified a trajectory",
                          {"seed": seed, "row": i, "mode": mode},
                          {"kind": "purity"})
    return acc


SEQ_R = [np.eye(3), geom.rodrigues((0, 0, 1), 0.5),
         geom.rodrigues((1, 0, 0), 1.0), geom.rodrigues((0, 1, 0), 2.0),
         geom.rodrigues((1, 1, 0), 3.0), geom.rodrigues((1, 2, 3), 0.1)]
SEQ_P = [np.array(p, dtype=float) for p in
         ((0, 0, 0), (1, 0, 0), (0, 2, 0), (0, 0, 3), (1, 1, 1), (-2, 0.5, 4))]


def shard_seq(arg):
    """all sequences of length 1..4 over a 6-pose alphabet; est = ref pushed
    through 4 perturbation patterns; order / first / last / length 1;
    unequal lengths and the unsupported relation are refused; corollaries"""
    from evo.core import metrics
    firsts, maxlen = arg
    acc = Acc()
    G = geom.pose(geom.rodrigues((1, -1, 2), 0.9), [3.0, -2.0, 1.0])
    for f in firsts:
        for n in range(1, maxlen + 1):
            for rest in itertools.product(range(6), repeat=n - 1):
                idx = (f, ) + rest
                Rr = [SEQ_R[i] for i in idx]
                pr = [SEQ_P[i] for i in idx]
                for pat in range(4):
                    Re = [SEQ_R[(i + pat + k) % 6] for k, i in enumerate(idx)]
                    pe = [SEQ_P[(i + 2 * pat + 1) % 6] + 0.25 * k
                          for k, i in enumerate(idx)]
                    mode = ("se3", "quat")[(pat + n) % 2]
                    ref = common.make_traj(Rr, pr, None, mode)
                    est = common.make_traj(Re, pe, None, mode)
                    Pr = [geom.pose(R, p) for R, p in zip(Rr, pr)]
                    Pe = [geom.pose(R, p) for R, p in zip(Re, pe)]
                    for rel in RELS:
                        err = np.array(_ape(ref, est, rel).error)
                        exp = np.array([arc.ape_value(rel, a, b)
                                        for a, b in zip(Pr, Pe)])
                        acc.count("evaluations")
                        acc.count("transitions")
                        case = {"idx": list(idx), "pat": pat, "rel": rel}
                        if err.shape != exp.shape or np.abs(
                                err - exp).max() > tol_for(rel, 10):
                            acc.violation("seq", "%s: %s != %s" %
                                          (case, err.tolist(), exp.tolist()),
                                          case, {"kind": "order"})
                            continue
                        # one metric object used repeatedly (a loop over
                        # several estimates): every evaluation must stand on
                        # its own, and the trajectories must stay untouched
                        if pat == 1:
                            from evo.core import metrics as _m
                            mo = _m.APE(_m.PoseRelation[rel])
                            mo.process_data((ref, est))
                            mo.get_all_statistics()
                            mo.process_data((est, ref))
                            mo.process_data((ref, est))
                            again = np.array(mo.error, dtype=float)
                            fresh = np.array(_ape(ref, est, rel).error)
                            acc.count("transitions", 4)
                            if again.shape != exp.shape or np.abs(
                                    again - exp).max() > tol_for(rel, 10) \
                                    or np.abs(fresh - exp).max() > tol_for(
                                        rel, 10):
                                acc.violation(
                                    "seq", "%s: repeated evaluation gives %s, "
                                    "first gave %s" % (case, again.tolist(),
                                                       exp.tolist()), case,
                                    {"kind": "reuse"})
                        # corollaries (real code on both sides)
                        if pat == 0:
                            z = np.array(_ape(ref, ref, rel).error)
                            if np.abs(z).max() > 1e-9:
                                acc.violation("seq", "APE(x,x) != 0 (%s)" %
                                              rel, case, {"kind": "zero"})
                            sw = np.array(_ape(est, ref, rel).error)
                            if np.abs(sw - err).max() > tol_for(rel, 10):
                                acc.violation("seq", "APE(x,y) != APE(y,x) "
                                              "(%s)" % rel, case,
                                              {"kind": "swap"})
                            r2 = common.make_traj(Rr, pr, None, mode)
                            e2 = common.make_traj(Re, pe, None, mode)
                            r2.transform(G.copy())
                            e2.transform(G.copy())
                            mv = np.array(_ape(r2, e2, rel).error)
                            if np.abs(mv - err).max() > tol_for(rel, 10):
                                acc.violation("seq", "APE changes under a "
                                              "common rigid motion (%s)" %
                                              rel, case, {"kind": "rigid"})
                            acc.count("transitions", 3)
                    if pat == 0 and n >= 2:
                        acc.count("nontrivial")
                        # unequal lengths are refused, not truncated
                        short = common.make_traj(Re[:-1], pe[:-1], None, mode)
                        for a, b in ((ref, short), (short, ref)):
                            try:
                                _ape(a, b, "translation_part")
                                acc.violation("seq", "unequal lengths (%d, "
                                              "%d) were not refused" %
                                              (a.num_poses, b.num_poses),
                                              {"idx": list(idx), "pat": pat,
                                               "rel": "unequal"},
                                              {"kind": "unequal"})
                            except metrics.MetricsException:
                                pass
                            acc.count("transitions")
                        try:
                            _ape(ref, est, "point_distance_error_ratio")
                            acc.violation("seq", "unsupported relation was "
                                          "not refused", {"idx": list(idx),
                                                          "pat": pat,
                                                          "rel": "ratio"},
                                          {"kind": "unsupported"})
                        except metrics.MetricsException:
                            pass
    return acc


# ------------------------------------------------------------------ evo_ape
DIMS = [
    ("relation", ["full", "trans_part", "rot_part", "angle_deg", "angle_rad",
                  "point_distance"]),
    ("align", ["none", "a", "s", "as", "origin", "s+origin"]),
    ("n_to_align", [-1, 4, 6]),
    ("downsample", [None, 5]),
    ("motion_filter", [None, (0.5, 30.0), (100.0, 40.0), (2.5, 170.0)]),
    ("t_max_diff", [0.01, 0.3]),
    ("t_offset", [0.0, 0.125, 1.0, -0.26]),
    ("crop", [None, (1.5, 3.5), (2.0, None), (None, 3.0)]),
    ("project", [None, "xy", "xz", "yz"]),
    ("unit", [None, "compatible", "incompatible"]),
    ("fmt", ["tum", "kitti", "euroc"]),
    ("epoch", [0.0, 1.5e9]),
]


def normalise(pt):
    pt = dict(pt)
    pt.setdefault("epoch", 0.0)
    if pt["fmt"] == "kitti":
        pt["t_max_diff"], pt["t_offset"], pt["crop"] = 0.01, 0.0, None
        pt["epoch"] = 0.0
    if pt["align"] in ("none", "origin"):
        pt["n_to_align"] = -1
    if pt.get("geometry"):
        pt["fmt"], pt["epoch"] = "tum", 0.0
        if pt["t_offset"] == 1.0:
            pt["t_offset"] = 0.0
    return pt


def predict(pt):
    """-> (values, stamps or None) or raises pl.Refusal / pl.Ambiguous"""
    rel = arc.REL_CLI[pt["relation"]]
    ref, est = arc.processed_pair(pt)
    vals = [arc.ape_value(rel, a, b) for a, b in zip(ref.poses(), est.poses())]
    unit = arc.unit_choice(rel, pt["unit"])
    if unit is not None:
        f = arc.unit_factor(arc.BASE_UNIT.get(rel, "unit-less"), unit)
        if f is None:
            raise pl.Refusal("incompatible-unit")
        vals = [v * f for v in vals]
    return np.array(vals), est.stamps


def run_point(pt):
    from evo.tools import file_interface
    pt = normalise(pt)
    rel = arc.REL_CLI[pt["relation"]]
    argv = arc.common_argv(pt)
    unit = arc.unit_choice(rel, pt["unit"])
    if unit is not None:
        argv += ["--change_unit", unit]
    out = "ape_out.zip"
    if os.path.exists(out):
        os.remove(out)
    argv += ["--save_results", out, "--no_warnings", "--silent"]
    try:
        exp, stamps = predict(pt)
        refusal = None
    except pl.Refusal as r:
        exp, refusal = None, r
    except pl.Ambiguous as a:
        return [], "ambiguous"
    except pl.AssociationViolation as v:
        return ["time association of the input files: %s" % v], "values"
    res = cli.run_cli("ape", argv)
    if refusal is not None:
        if res.exc is not None and not cli.is_evo_refusal(res):
            return ["evo_ape crashed with %s: %s (expected refusal: %s)" %
                    (type(res.exc).__name__, res.exc, refusal.kind)], \
                "refused"
        if res.ok and not refusal.allowed_only:
            return ["evo_ape succeeded although the request must be refused "
                    "(%s)" % refusal.kind], "refused"
        return [], "refused:" + refusal.kind
    if not res.ok:
        return ["evo_ape failed (%s: %s) for a valid request" %
                (res.outcome(), res.exc)], "failed"
    r = file_interface.load_res_file(out)
    if "error_array" not in r.np_arrays:
        return ["the saved result holds no error values (arrays: %s)" %
                sorted(r.np_arrays)], "values"
    err = np.array(r.np_arrays["error_array"], dtype=float)
    msgs = []
    if err.shape != exp.shape:
        return ["stored %d error values, the processed trajectories have %d "
                "pose pairs" % (err.size, exp.size)], "values"
    tol = tol_for(rel, 1e5 if pt.get("geometry") == "f" else 10) * (
        1000.0 if unit == "mm" else 1.0)
    if np.abs(err - exp).max() > tol:
        k = int(np.argmax(np.abs(err - exp)))
        msgs.append("stored value %d = %.12g, reference pipeline gives %.12g"
                    % (k, err[k], exp[k]))
    if stamps is not None:
        ts = r.np_arrays.get("timestamps")
        if ts is None or len(ts) != len(stamps) or not np.array_equal(
                np.array(ts), np.array(stamps)):
            msgs.append("stored timestamps are not those of the remaining "
                        "pose pairs")
    return msgs, "values"


def shard_points(pts):
    wd = tempfile.mkdtemp(dir=os.getcwd(), prefix="c01_")
    old = os.getcwd()
    os.chdir(wd)
    acc = Acc()
    try:
        arc.write_fixture(wd)
        for pt in pts:
            msgs, outcome = run_point(pt)
            acc.count("evaluations")
            acc.count("transitions")
            acc.outcome("evo_ape:" + outcome)
            if outcome == "values":
                acc.count("nontrivial")
            if msgs:
                acc.violation("evo_ape", "evo_ape %s: %s" %
                              (normalise(pt), "; ".join(msgs[:2])), pt,
                              {"kind": "wiring"})
            elif acc.counters["evaluations"] % 1999 == 1:
                acc.sample({"point": normalise(pt), "outcome": outcome})
    finally:
        os.chdir(old)
    return acc


def self_test():
    """toggling every option must change the reference prediction on the
    fixture - otherwise a dropped flag would be invisible"""
    from mc.runner import HarnessError
    base = {"relation": "full", "align": "none", "n_to_align": -1,
            "downsample": None, "motion_filter": None, "t_max_diff": 0.01,
            "t_offset": 0.0, "crop": None, "project": None, "unit": None,
            "fmt": "tum", "epoch": 0.0}

    def sig(pt):
        try:
            v, s = predict(normalise(pt))
            return ("v", np.round(v, 9).tobytes(), None if s is None else
                    tuple(s))
        except pl.Refusal as r:
            return ("refused", r.kind)
        except (pl.Ambiguous, pl.AssociationViolation) as e:
            # (the lattice run itself reports a wrong association)
            return (type(e).__name__, )

    for name, values in DIMS:
        ctxs = [base, dict(base, align="as", t_max_diff=0.3),
                dict(base, t_offset=0.125), dict(base, t_max_diff=0.3),
                dict(base, relation="trans_part")]
        # every pair of values must be told apart in at least one context
        # (the TUM and EuRoC fixtures hold the same data; translation part
        # and point distance coincide for APE: one pair may coincide there)
        undistinguished = set()
        for i in range(len(values)):
            for j in range(i + 1, len(values)):
                if not any(sig(dict(b, **{name: values[i]})) !=
                           sig(dict(b, **{name: values[j]})) for b in ctxs):
                    undistinguished.add((i, j))
        distinct = len(undistinguished) <= (1 if name in ("relation", "fmt")
                                            else 0)
        if not distinct and name not in ("n_to_align", ):
            raise HarnessError("fixture cannot distinguish the values of "
                               "option %s" % name)
    # n_to_align needs an aligning context
    b = dict(base, align="as")
    if sig(dict(b, n_to_align=-1)) == sig(dict(b, n_to_align=4)):
        raise HarnessError("fixture cannot distinguish n_to_align")


def lattice_points(ctx):
    if ctx.thorough:
        pts = lattice.product(DIMS)
    else:
        pts = lattice.pairwise(DIMS, seed=ctx.seed)
        # + the full product over a reduced lattice (TUM input, two values
        # per secondary dimension)
        sub = [("relation", DIMS[0][1]), ("align", DIMS[1][1]),
               ("n_to_align", [-1, 4, 6]), ("downsample", [None, 5]),
               ("motion_filter", [None, (0.5, 30.0), (2.5, 170.0)]),
               ("t_max_diff", [0.01, 0.3]), ("t_offset", [0.0, 0.125, 1.0]),
               ("crop", [None, (1.5, 3.5)]), ("project", [None, "xz"]),
               ("unit", [None, "compatible"]), ("fmt", ["tum"]),
               ("epoch", [0.0, 1.5e9])]
        pts += lattice.product(sub)
        sub2 = [("relation", ["full", "trans_part", "angle_deg"]),
                ("align", DIMS[1][1]), ("n_to_align", [-1, 4, 6]),
                ("fmt", ["kitti", "euroc"]), ("project", [None, "xy", "yz"]),
                ("downsample", [None, 5])]
        base = {"motion_filter": None, "t_max_diff": 0.01, "t_offset": 0.0,
                "crop": None, "unit": None}
        for p in lattice.product(sub2):
            q = dict(base)
            q.update(p)
            pts.append(q)
    # one-sided time ranges and a negative offset x the steps that depend on
    # which poses remain
    sub4 = [("crop", [None, (2.0, None), (None, 3.0), (1.5, 3.5)]),
            ("t_offset", [0.0, -0.26, 0.125]), ("t_max_diff", [0.01, 0.3]),
            ("relation", ["full", "trans_part", "angle_deg"]),
            ("align", DIMS[1][1]), ("downsample", [None, 5]),
            ("epoch", [0.0, 1.5e9])]
    base4 = {"n_to_align": -1, "motion_filter": None, "project": None,
             "unit": None, "fmt": "tum"}
    if not ctx.thorough:
        for p in lattice.product(sub4):
            q = dict(base4)
            q.update(p)
            pts.append(q)
    # geometry variants of the estimate (mirrored / far from the origin / the
    # reference file itself) x
    # every alignment mode: the stored values must come from the
    # least-squares alignment also where it needs the reflection handling
    # and where the coordinates are large compared with the extent
    sub3 = [("geometry", ["m", "f", "same", "b", "nonl", "crlf"]), ("relation", DIMS[0][1]),
            ("align", DIMS[1][1]), ("n_to_align", [-1, 4, 6]),
            ("downsample", [None, 5]), ("project", [None, "xy", "xz"]),
            ("t_max_diff", [0.01, 0.3])]
    base = {"motion_filter": None, "t_offset": 0.0, "crop": None,
            "unit": None, "fmt": "tum", "epoch": 0.0}
    for p in lattice.product(sub3):
        q = dict(base)
        q.update(p)
        pts.append(q)
    # de-duplicate after normalisation
    seen, out = set(), []
    for p in pts:
        k = json.dumps(normalise(p), sort_keys=True)
        if k not in seen:
            seen.add(k)
            out.append(p)
    return out


def run(ctx):
    self_test()
    rots = common.rot_hard(ctx.seed, 3)
    acc = Acc()
    for mode in ("se3", "quat"):
        acc.merge(pmap_acc(ctx, __name__, "shard_core",
                           [(ctx.seed, s, mode)
                            for s in shard(range(len(rots)), 16)]))
    acc.merge(pmap_acc(ctx, __name__, "shard_seq",
                       [([f], ctx.pick(3, 4)) for f in range(6)]))
    pts = lattice_points(ctx)
    acc.merge(pmap_acc(ctx, __name__, "shard_points",
                       shard(pts, ctx.jobs * 2)))
    acc.counters["states"] = acc.counters["evaluations"]
    acc.bounds = {"lattice_points": len(pts)}
    acc.rule = (
        "metric core: all %d^2 ordered (reference, estimate) rotation pairs of "
        "the hard alphabet (angles 1e-16..1e-3, pi-1e-12..pi, cube rotations, "
        "generic) with positions up to 5.4e6 m x 6 relations x both storage "
        "modes, value k checked against pair k; all sequences of length <= %d "
        "over 6 poses x 4 perturbation patterns (order, APE(x,x)=0, swap, "
        "common rigid motion, unequal lengths and the 7th relation refused); "
        "evo_ape lattice %s (%d points after normalisation), error_array and "
        "timestamps read back from the zip vs the reference pipeline. "
        "non-trivial = relative angle within 1e-6 of 0/pi (core), successful "
        "lattice runs" %
        (len(rots), ctx.pick(3, 4),
         "full product" if ctx.thorough else "pairwise + full product "
         "of a reduced lattice", len(pts)))
    acc.assumptions = [
        "orientation of non-planar projected poses inside the pipeline comes "
        "from evo's project() on the model's pre-projection poses (C14)",
        "a harness self-test asserts that every option value changes the "
        "reference prediction on the fixture",
    ]
    return acc


def replay(part, case):
    if part == "core":
        a = shard_core((case["seed"], [case["row"]], case["mode"]))
        return [v["msg"] for v in a.violations]
    if part == "seq":
        a = shard_seq(([case["idx"][0]], len(case["idx"])))
        return [v["msg"] for v in a.violations
                if v["case"].get("idx") == case["idx"]
                and v["case"].get("pat") == case["pat"]
                and v["case"].get("rel") == case["rel"]]
    if part == "evo_ape":
        for k in ("motion_filter", "crop"):
            if case.get(k):
                case[k] = tuple(case[k])
        wd = tempfile.mkdtemp(dir=os.getcwd(), prefix="c01r_")
        old = os.getcwd()
        os.chdir(wd)
        try:
            arc.write_fixture(wd)
            return run_point(case)[0]
        finally:
            os.chdir(old)
    return []
