"""
C10 - RPE pair selection returns exactly the pairs that realise the delta.
E1 over all step sequences on exact grids x delta unit x mode x delta x
tolerance, on the real metrics.id_pairs_from_delta; predicate oracle.
"""
import itertools
import math

import numpy as np

from mc import common
from mc.engine.core import Acc, pmap_acc, shard
from mc.refmodel import geom

EPS = 1e-9
DIRS = [np.array(d, dtype=float) for d in ((1, 0, 0), (0, 1, 0), (0, 0, 1))]
ROTSTEPS = [
    np.eye(3),
    geom.rodrigues((0, 0, 1), math.pi / 8),
    geom.rodrigues((0, 0, 1), math.pi / 4),
    geom.rodrigues((0, 0, 1), math.pi / 2),
    geom.rodrigues((0, 0, 1), math.pi),
    geom.rodrigues((1, 0, 0), math.pi / 2),
]
M_DELTAS = (1.0, 2.0, 3.0, 5.0, 2.5, 100.0, 2.00001, 0.99999)
A_DELTAS = (math.pi / 8, math.pi / 4, math.pi / 2, math.pi, 0.5, 1.0, 3.0,
            math.pi / 4 + 1e-5, math.pi / 2 - 1e-5)
TOLS = (0.0, 0.1, 0.5, 1.0, 1.5)


_BUFS = {}


def poses_from_steps(steps):
    ps = [np.zeros(3)]
    for k, s in enumerate(steps):
        ps.append(ps[-1] + s * DIRS[k % 3])
    # orientations that must not matter for a path-length delta: exact half
    # turns (about z, about x) and a quarter turn between the identity
    return [geom.pose(_PATH_ORI[k % len(_PATH_ORI)], p)
            for k, p in enumerate(ps)]


_PATH_ORI = [np.eye(3), np.diag([-1.0, -1.0, 1.0]), np.eye(3),
             np.diag([1.0, -1.0, -1.0]),
             np.array([[0.0, -1.0, 0.0], [1.0, 0.0, 0.0], [0.0, 0.0, 1.0]])]


def poses_from_rots(idx):
    Rs = [np.eye(3)]
    for i in idx:
        Rs.append(Rs[-1] @ ROTSTEPS[i])
    return [geom.pose(R, np.array([0.1 * k, 0, 0])) for k, R in enumerate(Rs)]


def call(poses, delta, unit, rel_tol, all_pairs):
    from evo.core import metrics, filters
    from evo.core.units import Unit
    u = {"f": Unit.frames, "m": Unit.meters, "r": Unit.radians,
         "d": Unit.degrees}[unit]
    try:
        with common.quiet():
            pairs = metrics.id_pairs_from_delta(poses, delta, u, rel_tol,
                                                all_pairs)
        return [(int(i), int(j)) for i, j in pairs], None
    except filters.FilterException as e:
        return None, e


# ------------------------------------------------------------ predicates
def basic(pairs, n):
    msgs = []
    for i, j in pairs:
        if not (0 <= i < j < n):
            msgs.append("pair (%d,%d) violates 0 <= i < j < %d" % (i, j, n))
    return msgs


def judge_frames(n, delta, all_pairs, pairs):
    if all_pairs:
        exp = [(i, i + delta) for i in range(n) if i + delta < n]
    else:
        exp = [(i, i + delta) for i in range(0, n, delta) if i + delta < n]
    if pairs != exp:
        return ["frames: got %s, expected %s" % (pairs, exp)], bool(exp)
    return [], bool(exp)


def judge_chain(acc_fn, n, delta, pairs, start_at_zero):
    """acc_fn(a, b) = travelled quantity from pose a to pose b (a<=b).
    Three-valued around delta (EPS).  Returns (msgs, a pair exists)."""
    msgs = []

    def reaches(a, b):  # 1 yes, 0 no, None knife-edge
        v = acc_fn(a, b)
        if v >= delta + EPS:
            return 1
        if v <= delta - EPS:
            return 0
        return None

    # latest admissible start
    s0 = None
    for j in range(n):
        if reaches(0, j) != 0:
            s0 = j
            if reaches(0, j) == 1:
                break
    s0_strict = next((j for j in range(n) if reaches(0, j) == 1), None)
    for k, (a, b) in enumerate(pairs):
        if k and pairs[k - 1][1] != a:
            msgs.append("not a chain: %s then %s" % (pairs[k - 1], (a, b)))
        if reaches(a, b) == 0:
            msgs.append("pair (%d,%d) does not reach delta" % (a, b))
        for j in range(a + 1, b):
            if reaches(a, j) == 1:
                msgs.append("pair (%d,%d): pose %d already reaches delta" %
                            (a, b, j))
                break
    if pairs:
        a0 = pairs[0][0]
        if s0_strict is not None and a0 > s0_strict:
            msgs.append("chain starts at %d, later than the first pose "
                        "reaching delta from the beginning (%d)" %
                        (a0, s0_strict))
        if start_at_zero and a0 != 0:
            pass  # the property only bounds the start from above
        last = pairs[-1][1]
        for j in range(last + 1, n):
            if reaches(last, j) == 1:
                msgs.append("chain stops at %d although pose %d reaches "
                            "delta again" % (last, j))
                break
        exists = True
    else:
        # empty: acceptable only if no pair can be formed from the latest
        # admissible start
        exists = False
        starts = [s0_strict] if s0_strict is not None else []
        for a in starts:
            if any(reaches(a, j) == 1 for j in range(a + 1, n)):
                exists = True
        if exists:
            msgs.append("no pairs although the chain from pose %d reaches "
                        "delta" % s0_strict)
    return msgs, exists


def judge_allpairs_path(dist, n, delta, tol, pairs):
    msgs = []
    seen_i = [i for i, _ in pairs]
    if len(set(seen_i)) != len(seen_i) or seen_i != sorted(seen_i):
        msgs.append("start poses not reported once each in order: %s" % pairs)
    got = dict(pairs)
    exists = False
    for i in range(n - 1):
        errs = [abs((dist[j] - dist[i]) - delta) for j in range(i + 1, n)]
        best = min(errs)
        eligible = best <= tol
        exists = exists or eligible
        if eligible and i not in got:
            msgs.append("pose %d has a pose within tolerance (err %g <= %g) "
                        "but no pair" % (i, best, tol))
        if i in got:
            j = got[i]
            e = abs((dist[j] - dist[i]) - delta)
            if e > tol:
                msgs.append("pair (%d,%d): |path - delta| = %g > tol %g" %
                            (i, j, e, tol))
            elif e != best:
                msgs.append("pair (%d,%d) is not the closest (err %g, best "
                            "%g)" % (i, j, e, best))
    return msgs, exists


def judge_allpairs_angle(Rs, delta, tol, pairs):
    msgs = []
    n = len(Rs)
    lo, hi = delta - tol, delta + tol
    got = set(pairs)
    if len(got) != len(pairs):
        msgs.append("duplicate pairs")
    exists = False
    for i in range(n):
        for j in range(i + 1, n):
            a = geom.rot_angle(Rs[i].T @ Rs[j])
            inside = lo + EPS <= a <= hi - EPS
            outside = a < lo - EPS or a > hi + EPS
            if inside:
                exists = True
                if (i, j) not in got:
                    msgs.append("pair (%d,%d) with angle %.6g in [%.6g,%.6g] "
                                "missing" % (i, j, a, lo, hi))
            elif outside and (i, j) in got:
                msgs.append("pair (%d,%d) with angle %.6g outside [%.6g,"
                            "%.6g]" % (i, j, a, lo, hi))
            elif (i, j) in got:
                exists = True
    return msgs, exists


def judge_pairs(poses, delta, unit, rel_tol, all_pairs, got):
    """predicate oracle for a list of pairs on arbitrary poses
    -> (msgs, a pair exists)"""
    n = len(poses)
    msgs = basic(got, n)
    if unit == "f":
        m, exists = judge_frames(n, int(delta), all_pairs, got)
    elif unit == "m":
        ps = [p[:3, 3] for p in poses]
        dist = [0.0]
        for k in range(n - 1):
            dist.append(dist[-1] + float(np.linalg.norm(ps[k + 1] - ps[k])))
        if all_pairs:
            m, exists = judge_allpairs_path(dist, n, delta, delta * rel_tol,
                                            got)
        else:
            m, exists = judge_chain(lambda a, b: dist[b] - dist[a], n, delta,
                                    got, False)
    else:
        Rs = [p[:3, :3] for p in poses]
        d = math.radians(delta) if unit == "d" else delta
        if all_pairs:
            m, exists = judge_allpairs_angle(Rs, d, d * rel_tol, got)
        else:
            ang = [geom.rot_angle(Rs[k].T @ Rs[k + 1]) for k in range(n - 1)]
            cum = [0.0]
            for a in ang:
                cum.append(cum[-1] + a)
            m, exists = judge_chain(lambda a, b: cum[b] - cum[a], n, d, got,
                                    True)
    return msgs + m, exists


def run_case(case):
    kind = case["kind"]
    delta, unit, allp, rel_tol = (case["delta"], case["unit"],
                                  case["all_pairs"], case["rel_tol"])
    if kind == "frames":
        poses = poses_from_steps([1] * (case["n"] - 1))
    elif kind == "path":
        poses = poses_from_steps(case["steps"])
    else:
        poses = poses_from_rots(case["rots"])
    n = len(poses)
    if case.get("reuse_list", True):
        # hand over the same list object again and again (refilled in place):
        # results must depend on the poses, not on the identity of the list
        buf = _BUFS.setdefault(n, [])
        buf[:] = poses
        poses = buf
    snap = [p.tobytes() for p in poses]
    pairs, exc = call(poses, delta, unit, rel_tol, allp)
    msgs = []
    if [p.tobytes() for p in poses] != snap:
        msgs.append("the pose list was modified")
    got = pairs if pairs is not None else []
    msgs += basic(got, n)
    if kind == "frames":
        m, exists = judge_frames(n, int(delta), allp, got)
    elif kind == "path":
        ps = [p[:3, 3] for p in poses]
        steps = [float(np.linalg.norm(ps[k + 1] - ps[k]))
                 for k in range(n - 1)]
        dist = [0.0]
        for s in steps:
            dist.append(dist[-1] + s)
        if allp:
            m, exists = judge_allpairs_path(dist, n, delta, delta * rel_tol,
                                            got)
        else:
            m, exists = judge_chain(lambda a, b: dist[b] - dist[a], n, delta,
                                    got, False)
    else:
        Rs = [p[:3, :3] for p in poses]
        d = math.radians(delta) if unit == "d" else delta
        if allp:
            m, exists = judge_allpairs_angle(Rs, d, d * rel_tol, got)
        else:
            ang = [geom.rot_angle(Rs[k].T @ Rs[k + 1]) for k in range(n - 1)]
            cum = [0.0]
            for a in ang:
                cum.append(cum[-1] + a)
            m, exists = judge_chain(lambda a, b: cum[b] - cum[a], n, d, got,
                                    True)
    msgs += m
    # empty result <=> FilterException
    if pairs is not None and len(pairs) == 0:
        msgs.append("empty pair list returned instead of evo's filter error")
    if exc is not None and exists and not m:
        msgs.append("filter error although pairs exist")
    info = {"outcome": "refused" if exc is not None else
            "pairs=%d" % min(len(got), 6), "exists": exists}
    return msgs, info


def _run(acc, case):
    msgs, info = run_case(case)
    acc.count("evaluations")
    acc.count("transitions")
    acc.outcome("%s/%s/%s" % (case["kind"], "all" if case["all_pairs"]
                              else "consecutive", info["outcome"]))
    if info["exists"]:
        acc.count("nontrivial")
    if msgs:
        acc.violation("pairs", "%s: %s" % (case, "; ".join(msgs[:2])), case,
                      {"kind": case["kind"], "all_pairs": case["all_pairs"]})
    elif acc.counters["evaluations"] % 40009 == 1:
        acc.sample(case)


def shard_path(arg):
    seqs = arg
    acc = Acc()
    for steps in seqs:
        for delta in M_DELTAS:
            _run(acc, {"kind": "path", "steps": list(steps), "delta": delta,
                       "unit": "m", "all_pairs": False, "rel_tol": 0.1})
            for rt in TOLS:
                _run(acc, {"kind": "path", "steps": list(steps),
                           "delta": delta, "unit": "m", "all_pairs": True,
                           "rel_tol": rt})
    return acc


F_STEPS = (0.0, 0.25, 0.5, 1.0)
F_DELTAS = (0.5, 0.75, 2.0)
F_TOLS = (0.0, 0.2, 0.5, 1.0, 1.25)


def shard_path_frac(arg):
    """second metre grid with binary-fraction steps and deltas below 1
    (absolute vs. relative tolerance, scale-dependent shortcuts)"""
    seqs = arg
    acc = Acc()
    for idx in seqs:
        steps = [F_STEPS[i] for i in idx]
        for delta in F_DELTAS:
            _run(acc, {"kind": "path", "steps": steps, "delta": delta,
                       "unit": "m", "all_pairs": False, "rel_tol": 0.1})
            for rt in F_TOLS:
                _run(acc, {"kind": "path", "steps": steps, "delta": delta,
                           "unit": "m", "all_pairs": True, "rel_tol": rt})
    return acc


def shard_angle(arg):
    seqs = arg
    acc = Acc()
    for rots in seqs:
        for delta in A_DELTAS:
            for unit in ("r", "d"):
                d = math.degrees(delta) if unit == "d" else delta
                _run(acc, {"kind": "angle", "rots": list(rots), "delta": d,
                           "unit": unit, "all_pairs": False, "rel_tol": 0.1})
                for rt in TOLS:
                    _run(acc, {"kind": "angle", "rots": list(rots),
                               "delta": d, "unit": unit, "all_pairs": True,
                               "rel_tol": rt})
    return acc


def shard_large(arg):
    """a few long sequences (beyond 100 poses): vectorised / blocked code
    paths must give the same pairs as the small-scope semantics"""
    acc = Acc()
    for n in arg:
        steps = [float((k * 7) % 4) for k in range(n - 1)]
        rots = [[0, 1, 2, 1, 0, 3, 5, 1][(k * 5) % 8] for k in range(n - 1)]
        for delta in (2.0, 7.0, 2.00001):
            _run(acc, {"kind": "path", "steps": steps, "delta": delta,
                       "unit": "m", "all_pairs": False, "rel_tol": 0.1})
            _run(acc, {"kind": "path", "steps": steps, "delta": delta,
                       "unit": "m", "all_pairs": True, "rel_tol": 0.1})
        for delta in (math.pi / 4, 1.0, math.pi / 2):
            for unit in ("r", "d"):
                d = math.degrees(delta) if unit == "d" else delta
                for allp in (False, True):
                    _run(acc, {"kind": "angle", "rots": rots, "delta": d,
                               "unit": unit, "all_pairs": allp,
                               "rel_tol": 0.1})
        acc.count("large_instances")
    return acc


def shard_frames(arg):
    acc = Acc()
    for n in range(2, 13):
        for delta in range(1, n + 2):
            for allp in (False, True):
                _run(acc, {"kind": "frames", "n": n, "delta": delta,
                           "unit": "f", "all_pairs": allp, "rel_tol": 0.1})
    return acc


RPE_PARAMS = [("f", 1, False, 0.1), ("f", 3, False, 0.1), ("f", 2, True, 0.1),
              ("m", 2.0, False, 0.1), ("m", 1.0, True, 0.5),
              ("d", 90.0, True, 0.1), ("f", 40, False, 0.1)]


def run_rpe_object(case):
    """the selection of an RPE object follows its (public) parameters as they
    are when process_data() runs: an object evaluated with one set and then
    given another selects like a fresh object with the second set"""
    from evo.core import metrics, filters
    from evo.core.units import Unit
    U = {"f": Unit.frames, "m": Unit.meters, "d": Unit.degrees}
    poses = poses_from_steps([1, 1, 2, 0, 1, 1, 3, 1, 0, 2, 1, 1])
    t = common.make_traj([P[:3, :3] for P in poses],
                         [P[:3, 3] for P in poses], None, "se3")

    def run(m):
        try:
            with common.quiet():
                m.process_data((t, t))
            return ("ok", [int(i) for i in m.delta_ids], len(m.error))
        except filters.FilterException:
            return ("no-pairs", None, None)
    u1, d1, ap1, tol1 = RPE_PARAMS[case["first"]]
    u2, d2, ap2, tol2 = RPE_PARAMS[case["second"]]
    rel = metrics.PoseRelation.translation_part
    m = metrics.RPE(rel, d1, U[u1], tol1, ap1)
    run(m)
    m.delta, m.delta_unit, m.all_pairs, m.rel_delta_tol = d2, U[u2], ap2, tol2
    got = run(m)
    want = run(metrics.RPE(rel, d2, U[u2], tol2, ap2))
    if got != want:
        return ["RPE object evaluated with %s and then set to %s selects %s, "
                "a fresh object with %s selects %s" %
                (RPE_PARAMS[case["first"]], RPE_PARAMS[case["second"]],
                 got[:2], RPE_PARAMS[case["second"]], want[:2])]
    return []


def shard_rpe_object(cases):
    acc = Acc()
    for case in cases:
        msgs = run_rpe_object(case)
        acc.count("evaluations")
        acc.count("transitions", 3)
        acc.count("nontrivial")
        acc.outcome("rpe-object")
        if msgs:
            acc.violation("rpe-object", msgs[0], case, {"kind": "rpe-object"})
    return acc


def run(ctx):
    maxp = ctx.pick(7, 8)  # poses for the metre grid
    maxa = ctx.pick(5, 6)  # poses for the angle grid
    pseqs = [s for k in range(1, maxp)
             for s in itertools.product((0, 1, 2, 3), repeat=k)]
    aseqs = [s for k in range(1, maxa)
             for s in itertools.product(range(len(ROTSTEPS)), repeat=k)]
    acc = pmap_acc(ctx, __name__, "shard_path", shard(pseqs, 64))
    fseqs = [s for k in range(1, ctx.pick(6, 7))
             for s in itertools.product(range(4), repeat=k)]
    acc.merge(pmap_acc(ctx, __name__, "shard_path_frac", shard(fseqs, 32)))
    acc.merge(pmap_acc(ctx, __name__, "shard_angle", shard(aseqs, 64)))
    acc.merge(pmap_acc(ctx, __name__, "shard_frames", [0]))
    acc.merge(pmap_acc(ctx, __name__, "shard_large",
                       [[n] for n in ctx.pick((130, 250), (130, 250, 1000))]))
    acc.merge(pmap_acc(ctx, __name__, "shard_rpe_object", [[
        {"first": a, "second": b} for a in range(len(RPE_PARAMS))
        for b in range(len(RPE_PARAMS)) if a != b]]))
    acc.counters["states"] = acc.counters["evaluations"]
    acc.rule = (
        "metres: all step sequences of 2..%d poses with step lengths "
        "{0,1,2,3} (axis-aligned, exact) x delta %s x {consecutive, all "
        "pairs x rel_tol %s}, and a second grid with steps {0,.25,.5,1} x "
        "delta {.5,.75,2} x rel_tol {0,.2,.5,1,1.25}; angles: all sequences of 2..%d poses over "
        "rotation steps {0,pi/8,pi/4,pi/2,pi about z, pi/2 about x} x delta "
        "%s x {rad,deg} x modes; frames: N 2..12 x delta 1..N+1 x modes. "
        "non-trivial = at least one pair realises the delta" %
        (maxp, M_DELTAS, TOLS, maxa, [round(a, 4) for a in A_DELTAS]))
    acc.assumptions = [
        "comparisons against delta are three-valued within 1e-9 for the "
        "angle units (accumulated angles are not exactly representable); the "
        "metre grid is exact",
    ]
    return acc


def replay(part, case):
    if part == "rpe-object":
        return run_rpe_object(case)
    return run_case(case)[0]
