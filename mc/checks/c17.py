"""
C17 - existing output files are never overwritten without confirmation.

E2/E4: for every output kind (writer functions and every output option of
evo_ape / evo_rpe / evo_traj / evo_res / evo_config generate / evo_fig) the
state machine {absent, old, new} of each output path is driven through all
histories of <= 2 runs x answers {'y','n','','Y','yes'} x warnings on/off x
path type; the whole work directory is snapshotted before and after each run.
"""
import argparse
import builtins
import contextlib
import importlib
import io
import itertools
import json
import os
import pathlib
import shutil
import sys
import tempfile

import numpy as np

from mc import common
from mc.engine import cli
from mc.engine.core import Acc, pmap_acc, shard
from mc.refmodel import geom

EOF = "<no answer: input ends (EOF)>"
ANSWERS = ("y", "n", "", "Y", "yes", "y ", " y", "y\r", EOF)
OLD = b"OLD CONTENT - must survive a declined overwrite\n"


class Run(object):
    def __init__(self):
        self.prompts = []
        self.error = None


@contextlib.contextmanager
def scripted(answer, run):
    old_in, old_out, old_err = builtins.input, sys.stdout, sys.stderr

    def fake(prompt=""):
        run.prompts.append(str(prompt))
        ans = answer
        if isinstance(answer, tuple):
            # (answer to the first question, answer to all later ones)
            ans = answer[0] if len(run.prompts) == 1 else answer[1]
        if cli.PROMPT_HOOK is not None:
            cli.PROMPT_HOOK(str(prompt), ans)
        if ans == EOF:
            raise EOFError("EOF when reading a line")
        return ans

    builtins.input = fake
    sys.stdout = io.StringIO()
    sys.stderr = sys.stdout
    try:
        yield
    finally:
        builtins.input = old_in
        sys.stdout, sys.stderr = old_out, old_err


class Monitor(object):
    """event log of one run: every scripted question with its answer and
    every open-for-writing / rename onto a path below wd, with whether the
    path existed at that moment"""

    def __init__(self, wd):
        self.wd = os.path.realpath(wd)
        self.events = []

    def _rel(self, path):
        try:
            p = os.path.realpath(os.fspath(path))
        except TypeError:
            return None
        if p.startswith(self.wd + os.sep):
            return os.path.relpath(p, self.wd)
        return None

    def __enter__(self):
        import io as _io
        self._open, self._ioopen = builtins.open, _io.open
        self._replace, self._rename = os.replace, os.rename
        self._hook = cli.PROMPT_HOOK
        mon = self

        def opener(file, mode="r", *a, **k):
            if isinstance(mode, str) and any(c in mode for c in "wxa+"):
                rel = mon._rel(file) if not isinstance(file, int) else None
                if rel is not None:
                    mon.events.append(("write", rel, os.path.exists(file)))
            return mon._open(file, mode, *a, **k)

        def mover(orig):
            def f(src, dst, *a, **k):
                rel = mon._rel(dst)
                if rel is not None:
                    mon.events.append(("write", rel, os.path.exists(dst)))
                return orig(src, dst, *a, **k)
            return f
        builtins.open = opener
        _io.open = opener
        os.replace, os.rename = mover(self._replace), mover(self._rename)
        cli.PROMPT_HOOK = lambda prompt, ans: mon.events.append(
            ("prompt", prompt, ans))
        return self

    def __exit__(self, *exc):
        import io as _io
        builtins.open, _io.open = self._open, self._ioopen
        os.replace, os.rename = self._replace, self._rename
        cli.PROMPT_HOOK = self._hook
        return False

    def unconfirmed(self):
        """writes onto an existing path that were not preceded (since the
        last write to that path) by a question answered 'y'"""
        out = []
        for k, ev in enumerate(self.events):
            if ev[0] != "write" or not ev[2] or ev[1].endswith(".log"):
                continue
            ans = None
            for prev in reversed(self.events[:k]):
                if prev[0] == "write" and prev[1] == ev[1]:
                    break
                if prev[0] == "prompt":
                    ans = prev[2]
                    break
            if ans != "y":
                out.append((ev[1], ans))
        return out


def snapshot_dir(wd):
    out = {}
    for root, _, files in os.walk(wd):
        for f in files:
            p = os.path.join(root, f)
            with open(p, "rb") as fh:
                out[os.path.relpath(p, wd)] = fh.read()
    return out


# ---------------------------------------------------------------- scenarios
def _traj(k=0, timed=True):
    n = 5
    Rs = [geom.rodrigues((0, 0, 1), 0.2 * i + 0.1 * k) for i in range(n)]
    ps = [np.array([i + 0.5 * k, 0.5 * i * i, 0.1 * i]) for i in range(n)]
    ts = [1.0 + 0.5 * i for i in range(n)] if timed else None
    return common.make_traj(Rs, ps, ts, "quat")


def _result():
    from evo import main_ape
    from evo.core import metrics
    return main_ape.ape(_traj(0), _traj(1),
                        metrics.PoseRelation.translation_part)


def _figs():
    import matplotlib.pyplot as plt
    from evo.tools import plot
    pc = plot.PlotCollection("title")
    for name in ("first", "second"):
        fig = plt.figure()
        fig.gca().plot([0, 1, 2], [0, 1, 0])
        pc.add_figure(name, fig)
    return pc


def _write_inputs(wd):
    from mc.checks import c15
    c15.write_fixture(wd)


def _cli(tool, argv_fn):
    def run(wd, target, answer, warn):
        argv = argv_fn(target) + ([] if warn else ["--no_warnings"])
        old = os.getcwd()
        os.chdir(wd)
        try:
            res = cli.run_cli(tool, argv, answers=list(answer) if isinstance(
                answer, tuple) else [answer])
        finally:
            os.chdir(old)
        r = Run()
        r.prompts = res.prompts
        if not res.ok and not (res.exit_code in (0, None)):
            r.error = "%s %s" % (res.outcome(), res.exc)
        elif res.exc is not None:
            r.error = "%s %s" % (res.outcome(), res.exc)
        return r
    return run


def _main_entry(modname, argv_fn):
    """tools without parser module (evo_config, evo_fig): drive main()"""
    def run(wd, target, answer, warn):
        r = Run()
        mod = importlib.import_module(modname)
        argv = argv_fn(target, warn)
        old_argv, old = sys.argv, os.getcwd()
        sys.argv = argv
        os.chdir(wd)
        try:
            with scripted(answer, r):
                try:
                    mod.main()
                except SystemExit as e:
                    if e.code not in (None, 0):
                        r.error = "exit %s" % e.code
                except Exception as e:
                    r.error = "%s: %s" % (type(e).__name__, e)
        finally:
            sys.argv = old_argv
            os.chdir(old)
            cli._reset_logging()
            if "matplotlib.pyplot" in sys.modules:
                sys.modules["matplotlib.pyplot"].close("all")
        return r
    return run


def _writer(fn):
    def run(wd, target, answer, warn):
        r = Run()
        with scripted(answer, r):
            try:
                fn(target, warn)
            except Exception as e:
                r.error = "%s: %s" % (type(e).__name__, e)
        if "matplotlib.pyplot" in sys.modules:
            sys.modules["matplotlib.pyplot"].close("all")
        return r
    return run


def scenarios():
    """name -> dict(run, outputs(target) -> list of relative paths, target,
    cost ('cheap'|'plot'), pathtypes)"""
    from evo.tools import file_interface as fi
    from evo.tools import pandas_bridge as pb
    S = {}

    def add(name, run, target, outputs=None, cost="cheap", pathtypes=("str", ),
            needs_inputs=False, prepare=None, bystanders=(), inits=None,
            old_content=None):
        # bystanders: existing files with neighbouring names that are not
        # the output; they are there in every initial state and may never
        # change
        S[name] = {"run": run, "target": target, "cost": cost,
                   "outputs": outputs or (lambda t: [t]),
                   "pathtypes": pathtypes, "needs_inputs": needs_inputs,
                   "prepare": prepare, "bystanders": tuple(bystanders),
                   # restricted set of initial states / what an "old" file
                   # holds (default: the OLD marker bytes)
                   "inits": inits, "old_content": old_content}

    add("writer:tum", _writer(lambda t, w: fi.write_tum_trajectory_file(
        t, _traj(), confirm_overwrite=w)), "out.tum",
        pathtypes=("str", "path"))
    add("writer:kitti", _writer(lambda t, w: fi.write_kitti_poses_file(
        t, _traj(), confirm_overwrite=w)), "out.kitti",
        pathtypes=("str", "path"))
    add("writer:res", _writer(lambda t, w: fi.save_res_file(
        t, _result(), confirm_overwrite=w)), "out.zip",
        pathtypes=("str", "path"))
    add("writer:table", _writer(lambda t, w: pb.save_df_as_table(
        pb.trajectory_stats_to_df(_traj()), t, confirm_overwrite=w)),
        "out.csv", pathtypes=("str", "path"))
    # the same writers with the flag handed over by position, and the plot
    # writers with the flag left at its default (which is "ask")
    add("writer:tum-positional", _writer(
        lambda t, w: fi.write_tum_trajectory_file(t, _traj(), w)),
        "outp.tum", pathtypes=("str", "path"))
    add("writer:kitti-positional", _writer(
        lambda t, w: fi.write_kitti_poses_file(t, _traj(), w)),
        "outp.kitti", pathtypes=("str", "path"))
    add("writer:res-positional", _writer(
        lambda t, w: fi.save_res_file(t, _result(), w)), "outp.zip",
        pathtypes=("str", "path"))

    def table_positional(t, w):
        from evo.tools.settings import SETTINGS
        pb.save_df_as_table(pb.trajectory_stats_to_df(_traj()), t,
                            SETTINGS.table_export_format,
                            SETTINGS.table_export_transpose, w)
    add("writer:table-positional", _writer(table_positional), "outp.csv")
    add("writer:plot-pdf-positional", _writer(lambda t, w: _figs().export(
        str(t), w)), "plotsp.pdf", cost="plot")
    add("writer:serialize-positional", _writer(
        lambda t, w: _figs().serialize(str(t), w)), "plotsp.pickle",
        cost="plot")
    add("writer:plot-pdf-default", _writer(
        lambda t, w: _figs().export(str(t)) if w else _figs().export(
            str(t), confirm_overwrite=False)), "plotsd.pdf", cost="plot")
    add("writer:serialize-default", _writer(
        lambda t, w: _figs().serialize(str(t)) if w else _figs().serialize(
            str(t), confirm_overwrite=False)), "plotsd.pickle", cost="plot")
    add("writer:plot-pdf", _writer(lambda t, w: _figs().export(
        str(t), confirm_overwrite=w)), "plots.pdf", cost="plot")
    add("writer:plot-png", _writer(lambda t, w: _figs().export(
        str(t), confirm_overwrite=w)), "plots.png",
        outputs=lambda t: ["plots_first.png", "plots_second.png"], cost="plot")
    def export_split(t, w):
        from evo.tools.settings import SETTINGS
        old = SETTINGS.plot_split
        dict.__setitem__(SETTINGS, "plot_split", True)
        try:
            _figs().export(str(t), confirm_overwrite=w)
        finally:
            dict.__setitem__(SETTINGS, "plot_split", old)
    # non-default setting plot_split: a .pdf target becomes one file per figure
    add("writer:plot-pdf-split", _writer(export_split), "plots.pdf",
        outputs=lambda t: ["plots_first.pdf", "plots_second.pdf"], cost="plot")
    # a target without file extension: matplotlib appends its default format
    add("writer:plot-noext", _writer(lambda t, w: _figs().export(
        str(t), confirm_overwrite=w)), "plotsx",
        outputs=lambda t: ["plotsx_first.png", "plotsx_second.png"],
        cost="plot", bystanders=("plotsx", "plotsx.png"))

    # a target that ends with a dot: matplotlib replaces the empty extension
    # by its default format as well
    add("writer:plot-trailing-dot", _writer(lambda t, w: _figs().export(
        str(t), confirm_overwrite=w)), "plotsz.",
        outputs=lambda t: ["plotsz_first.png", "plotsz_second.png"],
        cost="plot", bystanders=("plotsz.", ))

    def export_default_pdf(t, w):
        import matplotlib as mpl
        with mpl.rc_context({"savefig.format": "pdf"}):
            _figs().export(str(t), confirm_overwrite=w)
    # the same with matplotlib's default format set to pdf (matplotlibrc):
    # whether the PDF gets the name as given or with ".pdf" appended is evo's
    # choice - the file asked about must be the file written (event monitor)
    add("writer:plot-noext-pdf", _writer(export_default_pdf), "plotsy",
        cost="plot", bystanders=("plotsy.pdf", "plotsy_first.pdf",
                                 "plotsy.png"))
    add("writer:serialize", _writer(lambda t, w: _figs().serialize(
        str(t), confirm_overwrite=w)), "plots.pickle", cost="plot")

    # a collection that was loaded from a file and is serialized back onto
    # that very file: an existing path like any other
    def old_pickle():
        import tempfile as _tf
        d = _tf.mkdtemp(dir=os.getcwd(), prefix="c17ser_")
        p = os.path.join(d, "seed.pickle")
        _figs().serialize(p, confirm_overwrite=False)
        sys.modules["matplotlib.pyplot"].close("all")
        with open(p, "rb") as f:
            return f.read()

    def reserialize(t, w):
        from evo.tools import plot
        pc = plot.PlotCollection("loaded", deserialize=str(t))
        # (one more figure, so that the new content differs from the old)
        import matplotlib.pyplot as plt
        fig = plt.figure()
        fig.gca().plot([0, 1], [1, 0])
        pc.add_figure("third", fig)
        pc.serialize(str(t), confirm_overwrite=w)
    add("writer:serialize-onto-its-source", _writer(reserialize),
        "loaded.pickle", cost="plot", inits=("old", ),
        old_content=old_pickle)

    for tool in ("ape", "rpe"):
        base = ["tum", "ref.txt", "est1.txt"]
        add("evo_%s:save_results" % tool, _cli(
            tool, lambda t, base=base: base + ["--save_results", t]),
            "res.zip", needs_inputs=True)
        add("evo_%s:save_plot" % tool, _cli(
            tool, lambda t, base=base: base + ["--save_plot", t]),
            "p.png", outputs=lambda t: ["p_raw.png", "p_map.png"],
            cost="plot", needs_inputs=True)
        add("evo_%s:save_plot-pdf" % tool, _cli(
            tool, lambda t, base=base: base + ["--save_plot", t]),
            "p.pdf", cost="plot", needs_inputs=True)
        add("evo_%s:serialize_plot" % tool, _cli(
            tool, lambda t, base=base: base + ["--serialize_plot", t]),
            "p.ser", cost="plot", needs_inputs=True)
        # one path given to two output options: the second writer finds the
        # file the first one has just written - an existing path
        add("evo_%s:serialize_plot+save_results-same-path" % tool, _cli(
            tool, lambda t, base=base: base + ["--serialize_plot", t,
                                               "--save_results", t]),
            "both.out", cost="plot", needs_inputs=True)
    tb = ["tum", "est1.txt", "est2.txt", "--ref", "ref.txt"]
    add("evo_traj:save_as_tum", _cli("traj", lambda t: tb + ["--save_as_tum"]),
        "est1.tum", outputs=lambda t: ["est1.tum", "est2.tum", "ref.tum"],
        needs_inputs=True)
    add("evo_traj:save_as_kitti", _cli(
        "traj", lambda t: tb + ["--save_as_kitti"]), "est1.kitti",
        outputs=lambda t: ["est1.kitti", "est2.kitti", "ref.kitti"],
        needs_inputs=True)
    # two inputs with the same file stem (run1/est.txt, run2/est.txt) are
    # exported to the same name: the second export finds the file of the
    # first - or the pre-existing one that the first was not allowed to
    # replace (event monitor)
    def prep_same_stem(wd):
        for d in ("run1", "run2"):
            os.makedirs(os.path.join(wd, d), exist_ok=True)
            shutil.copy(os.path.join(wd, "est1.txt" if d == "run1"
                                     else "est2.txt"),
                        os.path.join(wd, d, "est.txt"))
    add("evo_traj:save_as_tum-same-stem", _cli(
        "traj", lambda t: ["tum", "run1/est.txt", "run2/est.txt",
                           "--save_as_tum"]), "est.tum",
        outputs=lambda t: ["est.tum"], needs_inputs=True,
        prepare=prep_same_stem)
    add("evo_traj:save_table", _cli(
        "traj", lambda t: tb + ["--save_table", t]), "t.csv",
        needs_inputs=True)
    add("evo_traj:save_plot", _cli(
        "traj", lambda t: tb + ["--save_plot", t]), "tp.png",
        outputs=lambda t: ["tp_trajectories.png", "tp_xyz.png", "tp_rpy.png",
                           "tp_speeds.png"], cost="plot", needs_inputs=True)
    add("evo_traj:serialize_plot", _cli(
        "traj", lambda t: tb + ["--serialize_plot", t]), "tp.ser",
        cost="plot", needs_inputs=True)

    def prep_res(wd):
        for k in range(2):
            r = _result()
            r.info["est_name"] = "est%d" % k
            fi.save_res_file(os.path.join(wd, "in%d.zip" % k), r)
    rb = ["in0.zip", "in1.zip"]
    add("evo_res:save_table", _cli("res", lambda t: rb + ["--save_table", t]),
        "rt.csv", prepare=prep_res)
    add("evo_res:save_plot", _cli("res", lambda t: rb + ["--save_plot", t]),
        "rp.pdf", cost="plot", prepare=prep_res)
    add("evo_res:serialize_plot", _cli(
        "res", lambda t: rb + ["--serialize_plot", t]), "rp.ser", cost="plot",
        prepare=prep_res)
    def prep_res_mixed(wd):
        from evo import main_rpe
        from evo.core import metrics
        from evo.core.units import Unit
        r = _result()
        r.info["est_name"] = "estA"
        fi.save_res_file(os.path.join(wd, "in0.zip"), r)
        r2 = main_rpe.rpe(_traj(0), _traj(1),
                          metrics.PoseRelation.translation_part, 1,
                          Unit.frames)
        r2.info["est_name"] = "estB"
        fi.save_res_file(os.path.join(wd, "in1.zip"), r2)
    # results of different metrics: evo_res first asks whether to go on
    # despite mismatching titles, the overwrite question comes second
    add("evo_res:save_table+title-question", _cli(
        "res", lambda t: rb + ["--save_table", t]), "rt2.csv",
        prepare=prep_res_mixed)
    # evo_config generate -o has no --no_warnings switch: always confirms
    add("evo_config:generate", _main_entry(
        "evo.main_config", lambda t, w: ["evo_config", "generate", "--align",
                                         "--plot_mode", "xz", "-o", t]),
        "gen.json")

    # a literal, unexpanded '~' in the target: whatever evo does with it, a
    # file that exists under $HOME must not be replaced without a question
    def run_tilde(wd, target, answer, warn):
        old_home = os.environ.get("HOME")
        os.environ["HOME"] = wd
        try:
            return _main_entry("evo.main_config", lambda t, w: [
                "evo_config", "generate", "--align", "-o", "~/cfg.json"])(
                    wd, target, answer, warn)
        finally:
            os.environ["HOME"] = old_home
    add("evo_config:generate-tilde", run_tilde, "cfg.json")

    def prep_fig(wd):
        _figs().serialize(os.path.join(wd, "in.ser"), confirm_overwrite=False)
        import matplotlib.pyplot as plt
        plt.close("all")
    add("evo_fig:save_plot", _main_entry(
        "evo.main_fig", lambda t, w: ["evo_fig", "in.ser", "--save_plot", t] +
        ([] if w else ["--no_warnings"])), "fp.pdf", cost="plot",
        prepare=prep_fig)
    add("evo_fig:serialize_plot", _main_entry(
        "evo.main_fig", lambda t, w: ["evo_fig", "in.ser", "--serialize_plot",
                                      t] + ([] if w else ["--no_warnings"])),
        "fp.ser", cost="plot", prepare=prep_fig)
    return S


ALWAYS_CONFIRMS = {"evo_config:generate", "evo_config:generate-tilde"}
# scenarios in which evo may fail or write elsewhere (the path is unusual);
# only "existing files stay untouched unless confirmed" is demanded
LENIENT = {"evo_config:generate-tilde", "writer:plot-noext-pdf",
           "evo_traj:save_as_tum-same-stem",
           "evo_ape:serialize_plot+save_results-same-path",
           "evo_rpe:serialize_plot+save_results-same-path"}
# ... judged by the event monitor: every write onto a path that exists at
# that moment needs a question answered 'y' since the last write to it
MONITORED = {"writer:plot-noext-pdf", "evo_traj:save_as_tum-same-stem",
             "evo_ape:serialize_plot+save_results-same-path",
             "evo_rpe:serialize_plot+save_results-same-path"}
# evo_fig additionally asks whether to overwrite its *input* file
EXTRA_PROMPT_TARGET = {"evo_fig:save_plot": "in.ser",
                       "evo_fig:serialize_plot": "in.ser"}
# scenarios that ask one unrelated question *before* the overwrite question
LEADING_QUESTION = {"evo_res:save_table+title-question"}


def completeness_guard():
    """every output-like option of the CLI parsers must be in the table"""
    from mc.runner import HarnessError
    table = scenarios()
    covered = {
        "ape": {"save_results", "save_plot", "serialize_plot"},
        "rpe": {"save_results", "save_plot", "serialize_plot"},
        "traj": {"save_as_tum", "save_as_kitti", "save_table", "save_plot",
                 "serialize_plot"},
        "res": {"save_table", "save_plot", "serialize_plot"},
    }
    # appended, never truncated (logging.FileHandler mode 'a'), resp. written
    # to a fresh time-stamped name by a writer that refuses existing files
    excluded = {"logfile", "save_as_bag", "save_as_bag2"}
    for tool, cov in covered.items():
        pm = importlib.import_module("evo.main_%s_parser" % tool)
        parser = pm.parser()
        actions = list(parser._actions)
        for a in parser._actions:
            if isinstance(a, argparse._SubParsersAction):
                for sp in a.choices.values():
                    actions += sp._actions
        for a in actions:
            d = a.dest
            if (d.startswith("save") or d.startswith("serialize")
                    or d in ("out", "output", "logfile")):
                if d not in cov and d not in excluded:
                    raise HarnessError("output option --%s of evo_%s is not "
                                       "covered by the C17 table" % (d, tool))
        for d in cov:
            if not any(k.startswith("evo_%s:%s" % (tool, d)) for k in table):
                raise HarnessError("table lacks evo_%s:%s" % (tool, d))


def run_history(name, pathtype, initial, history, wd=None):
    """history: list of (answer, warnings_on).  Returns (msgs, labels)"""
    S = scenarios()[name]
    own = wd is None
    wd = wd or tempfile.mkdtemp(dir=os.getcwd(), prefix="c17_")
    for f in os.listdir(wd):
        p = os.path.join(wd, f)
        shutil.rmtree(p) if os.path.isdir(p) else os.remove(p)
    if S["needs_inputs"]:
        _write_inputs(wd)
    if S["prepare"]:
        S["prepare"](wd)
    target_rel = S["target"]
    outputs = S["outputs"](target_rel)
    if initial == "old":
        old_bytes = S["old_content"]() if S.get("old_content") else OLD
        for o in outputs:
            with open(os.path.join(wd, o), "wb") as f:
                f.write(old_bytes)
    elif initial == "old-first-only":
        with open(os.path.join(wd, outputs[0]), "wb") as f:
            f.write(OLD)
    elif initial == "old-long":
        # an existing file that is (much) longer than anything evo writes:
        # a replacement replaces all of it
        for o in outputs:
            with open(os.path.join(wd, o), "wb") as f:
                f.write(OLD * 4000)
    elif initial == "empty":
        # zero-length existing files are existing files
        for o in outputs:
            open(os.path.join(wd, o), "wb").close()
    for o in S["bystanders"]:
        with open(os.path.join(wd, o), "wb") as f:
            f.write(OLD + b" (bystander)")
    msgs, labels = [], []
    extra = EXTRA_PROMPT_TARGET.get(name)
    for step, (answer, warn) in enumerate(history):
        if name in ALWAYS_CONFIRMS:
            warn = True
        before = snapshot_dir(wd)
        tgt = os.path.join(wd, target_rel)
        if not S["needs_inputs"] and not S["prepare"] is not None and \
                name.startswith("writer"):
            pass
        if name.startswith("writer"):
            target = pathlib.Path(tgt) if pathtype == "path" else tgt
        else:
            target = target_rel
        ow_answer = answer
        if name in LEADING_QUESTION and warn:
            # go on ('y') at the leading question, then the answer under test
            answer = ("y", ow_answer)
        with Monitor(wd) as mon:
            r = S["run"](wd, target, answer, warn)
        answer = ow_answer
        if name in MONITORED and warn:
            for path, ans in mon.unconfirmed():
                msgs.append("%s step %d: existing file %s was written %s" %
                            (name, step, path, "without any question" if ans
                             is None else "although the answer was %r" % ans))
        after = snapshot_dir(wd)
        existed = [o for o in outputs if o in before]
        confirm = warn
        where = "%s step %d (answer %r, warnings %s, existing %s)" % (
            name, step, answer, "on" if warn else "off", existed)
        if name in LENIENT:
            declined = confirm and answer != "y"
            asked = len(r.prompts) > 0
            for o in existed:
                if confirm and after.get(o) != before[o] and (
                        declined or not asked):
                    msgs.append("%s: existing file %s was replaced %s" %
                                (where, o, "although the answer was %r" %
                                 answer if asked else "without any question"))
            labels.append("declined" if declined and existed else "written")
            if msgs:
                break
            continue
        if r.error and answer == EOF and len(r.prompts) > 0:
            # the question was left unanswered: whatever evo does then, the
            # existing files stay as they are
            labels.append("declined")
            for o in before:
                if o not in after or after[o] != before[o]:
                    msgs.append("%s: existing file %s was %s although the "
                                "question was never answered" %
                                (where, o, "removed" if o not in after
                                 else "modified"))
            if msgs:
                break
            continue
        if r.error:
            msgs.append("%s: run failed: %s" % (where, r.error))
            break
        n_own_prompts = len(r.prompts)
        if extra and warn:
            n_own_prompts -= 1  # the question about the input file
        if name in LEADING_QUESTION and warn:
            n_own_prompts -= 1  # the question about mismatching titles
        if confirm and existed:
            if n_own_prompts < 1:
                msgs.append("%s: no confirmation was asked" % where)
        elif n_own_prompts > 0 and not existed:
            msgs.append("%s: asked %d question(s) although nothing exists" %
                        (where, n_own_prompts))
        if confirm and existed and answer != "y":
            labels.append("declined")
            for o in before:
                if o not in after or after[o] != before[o]:
                    msgs.append("%s: existing file %s was %s although the "
                                "answer was %r" %
                                (where, o, "removed" if o not in after
                                 else "modified", answer))
            stray = [o for o in after if o not in before and o not in outputs
                     and not o.endswith(".log")]
            if stray:
                msgs.append("%s: wrote %s in place of the declined output" %
                            (where, stray))
        else:
            labels.append("written")
            for o in outputs:
                if o not in after:
                    msgs.append("%s: output %s was not written" % (where, o))
                elif after[o] == OLD or len(after[o]) == 0:
                    # (covers the zero-length initial state as well)
                    msgs.append("%s: output %s still holds the old content" %
                                (where, o))
                elif OLD in after[o]:
                    msgs.append("%s: output %s was written over the old "
                                "file but still holds part of its content "
                                "(%d bytes)" % (where, o, len(after[o])))
                elif o in before and before[o] != b"" and OLD not in before[o] and \
                        step > 0 and \
                        name.startswith(("writer:tum", "writer:kitti")) and \
                        after[o] != before[o]:
                    msgs.append("%s: deterministic writer produced different "
                                "bytes" % where)
            for o in before:
                if o not in outputs and (o not in after or
                                         after[o] != before[o]):
                    if extra and o == extra and answer == "y" and warn:
                        continue  # evo_fig: user agreed to rewrite the input
                    msgs.append("%s: unrelated file %s was changed" %
                                (where, o))
        if extra and warn and answer != "y":
            if after.get(extra) != before.get(extra):
                msgs.append("%s: input file %s was overwritten without "
                            "confirmation" % (where, extra))
        if msgs:
            break
    if own:
        shutil.rmtree(wd, ignore_errors=True)
    return msgs, labels


def cases_for(name, S, thorough):
    cases = []
    cheap = S["cost"] == "cheap"
    multi = len(S["outputs"](S["target"])) > 1
    inits = ["absent", "old", "empty", "old-long"] + (
        ["old-first-only"] if multi else [])
    if S.get("inits"):
        inits = ["absent"] + list(S["inits"])  # (inits[1:] are used below)
    for pt in S["pathtypes"]:
        if cheap:
            for init in inits:
                for a1 in ANSWERS:
                    for w1 in (True, False):
                        cases.append((name, pt, init, [(a1, w1)]))
                        if thorough or (a1 in ("y", "n", "") and w1):
                            for a2 in ANSWERS:
                                for w2 in ((True, False) if thorough
                                           else (True, )):
                                    cases.append((name, pt, init,
                                                  [(a1, w1), (a2, w2)]))
        else:
            answers = ANSWERS if thorough else ("y", "n", "", "y ", EOF)
            for init in inits[1:]:
                for a1 in answers:
                    cases.append((name, pt, init, [(a1, True)]))
                cases.append((name, pt, init, [("n", False)]))
            if S.get("inits"):
                continue    # (the scenario needs an existing, valid file)
            cases.append((name, pt, "absent", [("n", True), ("n", True)]))
            cases.append((name, pt, "absent", [("y", True), ("y", True),
                                               ("", True)]))
    return cases


def shard_cases(cases):
    acc = Acc()
    wd = tempfile.mkdtemp(dir=os.getcwd(), prefix="c17w_")
    for name, pt, init, history in cases:
        msgs, labels = run_history(name, pt, init, history, wd)
        acc.count("evaluations")
        acc.count("transitions", len(history))
        acc.seen("states", (name, pt, init, tuple(history)))
        for lab in labels:
            acc.outcome(name.split(":")[0] + ":" + lab)
        if "declined" in labels:
            acc.count("nontrivial")
        case = {"name": name, "pathtype": pt, "initial": init,
                "history": [list(h) for h in history]}
        if msgs:
            acc.violation("overwrite", "; ".join(msgs[:2]), case,
                          {"kind": name})
        elif acc.counters["evaluations"] % 97 == 1:
            acc.sample(case)
    shutil.rmtree(wd, ignore_errors=True)
    return acc


def run(ctx):
    completeness_guard()
    S = scenarios()
    cases = []
    for name in sorted(S):
        cases += cases_for(name, S[name], ctx.thorough)
    # interleave cheap and expensive cases over the shards
    acc = pmap_acc(ctx, __name__, "shard_cases", shard(cases, ctx.jobs * 2))
    acc.counters["states"] = acc.n("states")
    acc.rule = (
        "%d output kinds (%s) x initial state {absent, old%s} x histories of "
        "1-2 runs (plots: reduced, 1-3 runs) x answers %s x warnings on/off x "
        "path as str/pathlib.Path for the writer functions; the work "
        "directory is snapshotted bytewise before and after every run. "
        "non-trivial = histories containing a declined overwrite" %
        (len(S), ", ".join(sorted(S)),
         ", only the first of several outputs old", list(ANSWERS)))
    acc.assumptions = [
        "--logfile (appended, never truncated) and --save_as_bag/--save_as_"
        "bag2 (fresh time-stamped name; the bag writer refuses existing "
        "files) are excluded; a completeness guard fails the check with a "
        "harness error if a parser gains an uncovered output option",
        "'new output' is recognised as non-empty content different from the "
        "old marker (plot files embed creation dates)",
    ]
    return acc


def replay(part, case):
    hist_ = [tuple(h) for h in case["history"]]
    return run_history(case["name"], case["pathtype"], case["initial"],
                       hist_)[0]
