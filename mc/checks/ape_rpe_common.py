"""
Shared by C01 / C02 / C12: reference definitions of the pose-relation
reductions and the reference pipeline of evo_ape / evo_rpe
(load -> downsample -> motion filter -> crop reference -> associate -> align
-> origin-align -> project -> metric -> unit change).
"""
import math
import os

import numpy as np

from mc import common
from mc.checks import c15
from mc.refmodel import geom
from mc.refmodel import pipeline as pl
from mc.refmodel.pipeline import RTraj

REL_CLI = {"full": "full_transformation", "trans_part": "translation_part",
           "rot_part": "rotation_part", "angle_deg": "rotation_angle_deg",
           "angle_rad": "rotation_angle_rad",
           "point_distance": "point_distance",
           "point_distance_error_ratio": "point_distance_error_ratio"}
BASE_UNIT = {"translation_part": "m", "point_distance": "m",
             "rotation_angle_deg": "deg", "rotation_angle_rad": "rad",
             "point_distance_error_ratio": "%"}
LEN_F = {"mm": 1e-3, "cm": 1e-2, "m": 1.0, "km": 1e3}


def reduce_E(relation, E):
    if relation == "translation_part":
        return float(np.linalg.norm(E[:3, 3]))
    if relation == "rotation_part":
        return float(np.linalg.norm(E[:3, :3] - np.eye(3)))
    if relation == "full_transformation":
        return float(np.linalg.norm(E - np.eye(4)))
    if relation == "rotation_angle_rad":
        return geom.rot_angle(E[:3, :3])
    if relation == "rotation_angle_deg":
        return math.degrees(geom.rot_angle(E[:3, :3]))
    raise KeyError(relation)


def ape_value(relation, Pref, Pest):
    if relation in ("translation_part", "point_distance"):
        return float(np.linalg.norm(Pest[:3, 3] - Pref[:3, 3]))
    return reduce_E(relation, geom.pose_inv(Pest) @ Pref)


def rpe_value(relation, Qi, Qj, Pi, Pj):
    """reference i->j: Q, estimate: P.  None = pair skipped (ratio with zero
    reference distance)"""
    if relation in ("point_distance", "point_distance_error_ratio"):
        dr = float(np.linalg.norm(Qj[:3, 3] - Qi[:3, 3]))
        de = float(np.linalg.norm(Pj[:3, 3] - Pi[:3, 3]))
        if relation == "point_distance":
            return abs(dr - de)
        return None if dr == 0.0 else abs(dr - de) / dr * 100.0
    Q = geom.pose_inv(Qi) @ Qj
    P = geom.pose_inv(Pi) @ Pj
    return reduce_E(relation, geom.pose_inv(Q) @ P)


def unit_factor(u_from, u_to):
    if u_from == u_to:
        return 1.0
    if u_from in LEN_F and u_to in LEN_F:
        return LEN_F[u_from] / LEN_F[u_to]
    if (u_from, u_to) == ("rad", "deg"):
        return 180.0 / math.pi
    if (u_from, u_to) == ("deg", "rad"):
        return math.pi / 180.0
    return None


def unit_choice(relation, which):
    """which in (None, 'compatible', 'incompatible') -> unit string or None"""
    base = BASE_UNIT.get(relation, "unit-less")
    if which is None:
        return None
    if which == "compatible":
        return {"m": "mm", "deg": "rad", "rad": "deg"}.get(base)
    return {"m": "deg", "deg": "m", "rad": "km"}.get(base, "mm")


# ------------------------------------------------------------------ fixture
def write_fixture(wd):
    c15.write_fixture(wd)


def load_pair(fmt, epoch=0.0, shifted=False, geometry=None):
    ref, est1, _ = c15.load_model(fmt, epoch)
    if geometry:
        return c15.geometry_variant(ref, est1, geometry)
    if fmt == "euroc":
        # evo_ape euroc: reference from the csv, estimate from a TUM file
        _, est1, _ = c15.load_model("tum", epoch)
    if shifted and est1.stamps is not None:
        # estimate clock 1 s behind (used with --t_offset 1.0)
        est1.stamps = [x - 1.0 + epoch for x in
                       c15.load_model("tum")[1].stamps]
    return ref, est1


def file_args(fmt, epoch=0.0, shifted=False, geometry=None):
    if geometry == "same":
        return ["tum", "ref.txt", "ref.txt"]
    if geometry in ("nonl", "crlf"):
        return ["tum", "ref.txt", "est1_%s.txt" % geometry]
    if geometry:
        return ["tum", "ref_%s.txt" % geometry, "est1_%s.txt" % geometry]
    e = "_e" if epoch else ""
    sft = "_s" if shifted else ""
    if fmt == "tum":
        return ["tum", "ref%s.txt" % e, "est1%s%s.txt" % (sft, e)]
    if fmt == "kitti":
        return ["kitti", "ref.kit", "est1.kit"]
    return ["euroc", "ref%s.csv" % e, "est1%s%s.txt" % (sft, e)]


ALIGN_OPTS = {"none": [], "a": ["-a"], "s": ["-s"], "as": ["-a", "-s"],
              "origin": ["--align_origin"],
              "s+origin": ["-s", "--align_origin"]}


def common_argv(pt):
    fmt = pt["fmt"]
    epoch = pt.get("epoch", 0.0)
    argv = file_args(fmt, epoch, pt["t_offset"] == 1.0, pt.get("geometry"))
    argv += ["-r", pt["relation"]]
    argv += ALIGN_OPTS[pt["align"]]
    if pt["n_to_align"] != -1:
        argv += ["--n_to_align", str(pt["n_to_align"])]
    if pt["downsample"]:
        argv += ["--downsample", str(pt["downsample"])]
    if pt["motion_filter"]:
        argv += ["--motion_filter"] + [str(v) for v in pt["motion_filter"]]
    if fmt != "kitti":
        argv += ["--t_max_diff", str(pt["t_max_diff"])]
        if pt["t_offset"]:
            argv += ["--t_offset", str(pt["t_offset"])]
        if pt["crop"]:
            # (a bound may be omitted: one-sided crop)
            if pt["crop"][0] is not None:
                argv += ["--t_start", repr(pt["crop"][0] + epoch)]
            if pt["crop"][1] is not None:
                argv += ["--t_end", repr(pt["crop"][1] + epoch)]
    if pt["project"]:
        argv += ["--project_to_plane", pt["project"]]
    return argv


def timed_shift(pt):
    return pt["fmt"] != "kitti" and pt["t_offset"] == 1.0


def processed_pair(pt):
    """reference pipeline up to (and including) projection.
    -> (ref, est) RTraj; raises pl.Refusal / pl.Ambiguous"""
    fmt = pt["fmt"]
    epoch = pt.get("epoch", 0.0) if fmt != "kitti" else 0.0
    ref, est = load_pair(fmt, epoch, timed_shift(pt), pt.get("geometry"))
    ref, est = ref.copy(), est.copy()
    timed = fmt != "kitti"
    if pt["downsample"]:
        ref = pl.downsample(ref, pt["downsample"], c15.evo_downsample_ids)
        est = pl.downsample(est, pt["downsample"], c15.evo_downsample_ids)
    if pt["motion_filter"]:
        if not timed:
            raise pl.Refusal("motion-filter-without-stamps",
                             allowed_only=True)
        d, a = pt["motion_filter"]
        ref = pl.motion_filter(ref, d, a)
        est = pl.motion_filter(est, d, a)
    if timed:
        if pt["crop"]:
            ref = pl.crop(ref, None if pt["crop"][0] is None else
                          pt["crop"][0] + epoch, None if pt["crop"][1] is None
                          else pt["crop"][1] + epoch)
            if ref.n == 0:
                raise pl.Refusal("no-association")
        ref, est = pl.associate(ref, est, pt["t_max_diff"], pt["t_offset"],
                                resolver=c15.evo_association)
    elif ref.n != est.n:
        raise pl.Refusal("unequal-length")
    al = pt["align"]
    n = pt["n_to_align"]
    if al in ("a", "s", "as", "s+origin"):
        est, _ = pl.align(est, ref, correct_scale=al in ("s", "as",
                                                         "s+origin"),
                          only_scale=al in ("s", "s+origin"), n=n)
    if al in ("origin", "s+origin"):
        est, _ = pl.align_origin(est, ref)
    if pt["project"]:
        ref = c15.project_model(ref, pt["project"])
        est = c15.project_model(est, pt["project"])
    return ref, est
