"""
C15 - evo_traj applies its options in the documented order and exports the
result.  E4: the real parser + run() over an option lattice (exhaustive in the
thorough tier, pairwise-covering in the quick tier), oracle = reference
pipeline (mc.refmodel.pipeline) + independent file parsers.
"""
import json
import math
import os
import tempfile

import numpy as np

from mc import common
from mc.engine import cli, lattice
from mc.engine.core import Acc, pmap_acc, shard
from mc.refmodel import files as rfiles
from mc.refmodel import geom
from mc.refmodel import pipeline as pl
from mc.refmodel.pipeline import RTraj


# ------------------------------------------------------------------ fixture
def fixture():
    N = 8
    rR, rp, rt = [], [], []
    for k in range(N):
        kk = 3 if k == 4 else k  # stationary stretch: pose 4 == pose 3
        yaw = math.radians(25.0 * kk)
        roll = math.radians(10.0 * (kk % 3))
        rR.append(geom.rodrigues((0, 0, 1), yaw) @ geom.rodrigues((1, 0, 0),
                                                                   roll))
        rp.append(np.array([1.0 * kk, 1.5 * (kk % 2) + 0.25 * kk,
                            0.5 * (kk % 3) + 0.125 * kk]))
        rt.append(1.0 + 0.5 * k)
    ref = RTraj(rR, rp, rt)
    G = geom.rodrigues((1, 2, 3), 0.7)
    tg = np.array([3.0, -1.0, 2.0])

    def est_of(idx, jitter, noise_seed, extra):
        Rs, ps, ts = [], [], []
        for j, k in enumerate(idx):
            nz = np.array([math.sin(noise_seed + 1.3 * k),
                           math.cos(noise_seed + 0.7 * k),
                           math.sin(noise_seed * 2 + 2.1 * k)]) * 0.05
            Rs.append(G.T @ rR[k] @ geom.rodrigues((0, 1, 0), 0.02 * (k + 1)))
            ps.append(0.5 * (G.T @ (rp[k] - tg)) + nz)
            ts.append(rt[k] + jitter(j))
        if extra is not None:
            Rs.append(geom.rodrigues((0, 1, 1), 0.4))
            ps.append(np.array([9.0, 9.0, 9.0]))
            ts.append(extra)
        return RTraj(Rs, ps, ts)

    est1 = est_of([0, 1, 2, 3, 4, 6, 7], lambda j: 0.001 * (j + 1), 0.3, 20.0)
    # (starts later than the reference: its first pose is paired with the
    # third reference pose)
    est2 = est_of([2, 3, 4, 5, 6, 7], lambda j: 0.0015 * (j + 1) + 0.00025,
                  1.9, None)
    return ref, est1, est2


T_R = geom.rodrigues((1, 0, 0), math.pi / 2) @ geom.rodrigues(
    (0, 0, 1), math.radians(30))
T_t = np.array([1.0, -2.0, 3.0])
_Rz90 = np.array([[0.0, -1.0, 0.0], [1.0, 0.0, 0.0], [0.0, 0.0, 1.0]])
TRANSFORMS = {"se3": geom.sim_matrix(T_R, T_t, 1.0),
              "sim3": geom.sim_matrix(T_R, T_t, 2.0),
              # integer entries, stored as an int64 .npy file
              "int": geom.sim_matrix(_Rz90, [4.0, -6.0, 8.0], 2.0)}


EPOCH = 1.5e9
# geometry variants of the first estimate (TUM only; used by C01/C02):
#  "m": a left-handed copy (y mirrored) - its best similarity to the
#       reference needs the reflection handling of the alignment
#  "f": reference and estimate far from the origin (map coordinates)
FAR = np.array([4620.37, 54280.91, 310.55])
_MIR = np.diag([1.0, -1.0, 1.0])


AFFIX = {"est1": "x_ref", "est2": "ref_y"}


def evo_association(s1, s2, max_diff, offset_2):
    """evo's own association primitive on two stamp lists, called the way
    associate_trajectories calls it -> [(index in s1, index in s2)]; used by
    the reference pipelines only for contested counterparts, after which the
    pairs are validated against the predicate of the property"""
    from evo.core import sync
    snd_longer = len(s2) > len(s1)
    short, long_, off = (s1, s2, offset_2) if snd_longer else (s2, s1,
                                                               -offset_2)
    ms, ml = sync.matching_time_indices(np.array(short, dtype=float),
                                        np.array(long_, dtype=float),
                                        max_diff, off)
    return list(zip(ms, ml)) if snd_longer else list(zip(ml, ms))


def geometry_variant(ref, est, geometry):
    if geometry in ("nonl", "crlf"):
        return ref, est       # the same data, another text form of the file
    if geometry == "b":
        # a burst: one more estimate pose 0.05 s after the third one - with
        # t_max_diff 0.3 both contend for the same reference pose
        k = 2
        Rs, ps, ts = list(est.Rs), list(est.ps), list(est.stamps)
        Rs.insert(k + 1, Rs[k] @ geom.rodrigues((0, 0, 1), 0.01))
        ps.insert(k + 1, ps[k] + np.array([0.02, 0.01, 0.0]))
        ts.insert(k + 1, ts[k] + 0.05)
        # (the trajectory with fewer poses drives the search: two late
        # reference poses keep the estimate the shorter one)
        rR, rp, rt = list(ref.Rs), list(ref.ps), list(ref.stamps)
        for d in (30.0, 31.0):
            rR.append(rR[-1])
            rp.append(rp[-1] + np.array([1.0, 0.0, 0.0]))
            rt.append(rt[0] + d)
        return RTraj(rR, rp, rt), RTraj(Rs, ps, ts)
    if geometry == "same":
        # the reference file given as the estimate as well
        return ref, RTraj(list(ref.Rs), list(ref.ps), list(ref.stamps))
    if geometry == "m":
        return ref, RTraj([_MIR @ R @ _MIR for R in est.Rs],
                          [_MIR @ p for p in est.ps], list(est.stamps))
    if geometry == "f":
        return (RTraj(list(ref.Rs), [p + FAR for p in ref.ps],
                      list(ref.stamps)),
                RTraj(list(est.Rs), [p + FAR for p in est.ps],
                      list(est.stamps)))
    return ref, est


def write_fixture(wd):
    ref, est1, est2 = fixture()
    for name, t in (("ref", ref), ("est1", est1), ("est2", est2)):
        rfiles.write_tum(os.path.join(wd, name + ".txt"), t.stamps, t.ps, t.Rs)
        rfiles.write_euroc(os.path.join(wd, name + ".csv"),
                           [int(round(x * 1e9)) for x in t.stamps], t.ps, t.Rs)
        # the same data without the title line (plain estimator output)
        rfiles.write_euroc(os.path.join(wd, name + "_nh.csv"),
                           [int(round(x * 1e9)) for x in t.stamps], t.ps, t.Rs,
                           header=False)
        # the estimate recorded with a clock that is 1 s behind
        # (to be used with --t_offset 1.0)
        if name == "est1":
            for suffix, ep in (("_s", 0.0), ("_s_e", EPOCH)):
                rfiles.write_tum(os.path.join(wd, name + suffix + ".txt"),
                                 [x - 1.0 + ep for x in t.stamps], t.ps, t.Rs)
        # the same data with epoch-sized timestamps
        es = [x + EPOCH for x in t.stamps]
        rfiles.write_tum(os.path.join(wd, name + "_e.txt"), es, t.ps, t.Rs)
        rfiles.write_euroc(os.path.join(wd, name + "_e.csv"),
                           [int(round(x * 1e9)) for x in es], t.ps, t.Rs)
    # the same estimates under file names that contain the reference's file
    # name as a suffix / prefix ("any set of trajectory files")
    for src, dst in AFFIX.items():
        with open(os.path.join(wd, src + ".txt")) as f:
            text = f.read()
        with open(os.path.join(wd, dst + ".txt"), "w") as f:
            f.write(text)
    # the first estimate in other text forms of the same file: no newline
    # after the last row, Windows line ends
    with open(os.path.join(wd, "est1.txt")) as f:
        text = f.read()
    with open(os.path.join(wd, "est1_nonl.txt"), "w", newline="") as f:
        f.write(text.rstrip("\n"))
    with open(os.path.join(wd, "est1_crlf.txt"), "w", newline="") as f:
        f.write(text.replace("\n", "\r\n"))
    for g in ("m", "f", "b"):
        r_g, e_g = geometry_variant(ref, est1, g)
        rfiles.write_tum(os.path.join(wd, "ref_%s.txt" % g), r_g.stamps,
                         r_g.ps, r_g.Rs)
        rfiles.write_tum(os.path.join(wd, "est1_%s.txt" % g), e_g.stamps,
                         e_g.ps, e_g.Rs)
    # KITTI: equal lengths required for alignment -> first 6 poses of each
    for name, t in (("ref", ref), ("est1", est1), ("est2", est2)):
        rfiles.write_kitti(os.path.join(wd, name + ".kit"), t.ps[:6], t.Rs[:6])
    for mname, T in TRANSFORMS.items():
        np.save(os.path.join(wd, "T_%s.npy" % mname),
                T.astype(np.int64) if mname == "int" else T)
        with open(os.path.join(wd, "T_%s.mat" % mname), "w") as f:
            for row in T:
                f.write(" ".join(repr(float(v)) for v in row) + "\n")
        s = float(np.cbrt(np.linalg.det(T[:3, :3])))
        q = geom.rot_to_quat_wxyz(T[:3, :3] / s)
        d = {"x": T[0, 3], "y": T[1, 3], "z": T[2, 3], "qw": q[0], "qx": q[1],
             "qy": q[2], "qz": q[3]}
        if mname == "sim3":
            d["scale"] = s
        with open(os.path.join(wd, "T_%s.json" % mname), "w") as f:
            json.dump(d, f)


def load_model(fmt, epoch=0.0):
    ref, est1, est2 = fixture()
    if fmt == "kitti":
        return [RTraj(t.Rs[:6], t.ps[:6], None) for t in (ref, est1, est2)]
    if epoch:
        for t in (ref, est1, est2):
            t.stamps = [x + epoch for x in t.stamps]
    if fmt == "euroc":
        out = []
        for t in (ref, est1, est2):
            out.append(RTraj(t.Rs, t.ps,
                             [int(round(x * 1e9)) / 1e9 for x in t.stamps]))
        return out
    return [ref, est1, est2]


# ------------------------------------------------------------------ lattice
ALIGN = ["none", "sync", "a", "s", "as", "origin", "s+origin"]
TRANSF = [("none", False, False, "se3", "npy")]
for side in ("left", "right"):
    for inv in (False, True):
        for mat in ("se3", "sim3"):
            for form in ("npy", "mat", "json"):
                # (--propagate_transform with --transform_left: the switch
                # only concerns right-hand side transformations)
                for prop in (False, True):
                    TRANSF.append((side, inv, prop, mat, form))
        TRANSF.append((side, inv, False, "int", "npy"))

DIMS = [
    ("nfiles", [1, 2]),
    ("downsample", [None, 5]),
    # (0.5 m, 30 deg): mostly distance-driven; (100 m, 40 deg): purely
    # angle-driven on the fixture (every pose is kept by its rotation);
    # (2.5 m, 170 deg): a distance threshold spanning several poses of the
    # zig-zag path (travelled length differs from the straight-line distance)
    ("motion_filter", [None, (0.5, 30.0), (100.0, 40.0), (2.5, 170.0)]),
    ("merge", [False, True]),
    ("t_offset", [0.0, 0.125, -0.125]),
    ("align", ALIGN),
    ("n_to_align", [-1, 4, 3]),
    ("transform", TRANSF),
    ("project", [None, "xy", "xz", "yz"]),
    ("export", ["tum", "kitti"]),
    ("t_max_diff", [0.01, 0.3]),
]
FORMAT_DIMS = [
    ("fmt", ["kitti", "euroc"]),
    ("header", [True, False]),
    ("nfiles", [1, 2]),
    ("downsample", [None, 4]),
    ("merge", [False, True]),
    ("t_offset", [0.0, 0.125]),
    ("align", ["none", "a", "as", "origin"]),
    ("transform", [TRANSF[0], ("left", True, False, "sim3", "json"),
                   ("right", False, True, "se3", "mat")]),
    ("project", [None, "xz"]),
]


def argv_of(pt):
    fmt = pt.get("fmt", "tum")
    ext = {"tum": ".txt", "kitti": ".kit", "euroc": ".csv"}[fmt]
    files = ["est1" + ext] + (["est2" + ext] if pt["nfiles"] == 2 else [])
    if pt.get("order") == "swapped":
        files = files[::-1]      # the shorter estimate first
    if fmt == "tum" and pt.get("epoch"):
        files = [f[:-len(ext)] + "_e" + ext for f in files]
    if fmt == "euroc" and pt.get("header") is False:
        files = [f[:-len(ext)] + "_nh" + ext for f in files]
    if pt.get("names") == "affix":
        files = [AFFIX[f[:-len(ext)]] + ext for f in files]
    argv = [fmt] + files
    al = pt["align"]
    if al != "none":
        argv += ["--ref", "ref" + ("_nh" if fmt == "euroc" and pt.get(
            "header") is False else "") + (
                "_e" if fmt == "tum" and pt.get("epoch") else "") + ext]
    if pt.get("downsample"):
        argv += ["--downsample", str(pt["downsample"])]
    if pt.get("motion_filter"):
        argv += ["--motion_filter"] + [str(v) for v in pt["motion_filter"]]
    if pt["merge"]:
        argv.append("--merge")
    if pt["t_offset"]:
        argv += ["--t_offset", str(pt["t_offset"])]
    argv += {"none": [], "sync": ["--sync"], "a": ["-a"], "s": ["-s"],
             "as": ["-a", "-s"], "origin": ["--align_origin"],
             "s+origin": ["-s", "--align_origin"]}[al]
    if pt.get("n_to_align", -1) != -1:
        argv += ["--n_to_align", str(pt["n_to_align"])]
    side, inv, prop, mat, form = pt["transform"]
    if side != "none":
        argv += ["--transform_" + side, "T_%s.%s" % (mat, form)]
        if inv:
            argv.append("--invert_transform")
        if prop:
            argv.append("--propagate_transform")
    if pt.get("project"):
        argv += ["--project_to_plane", pt["project"]]
    exp = pt.get("export", "kitti" if fmt == "kitti" else "tum")
    argv.append("--save_as_" + exp)
    argv += ["--t_max_diff", str(pt.get("t_max_diff", 0.01))]
    argv += ["--no_warnings", "--silent"]
    return argv, exp, ext


def expected(pt):
    """-> dict name -> RTraj (incl. the reference under its stem) or raises
    pl.Refusal / pl.Ambiguous"""
    fmt = pt.get("fmt", "tum")
    ep = fmt == "tum" and bool(pt.get("epoch"))
    ref, est1, est2 = load_model(fmt, EPOCH if ep else 0.0)
    n1, n2 = ("est1", "est2") if pt.get("names") != "affix" else (
        AFFIX["est1"], AFFIX["est2"])
    if ep:
        n1, n2 = n1 + "_e", n2 + "_e"
    if fmt == "euroc" and pt.get("header") is False:
        n1, n2 = n1 + "_nh", n2 + "_nh"
    trajs = {n1: est1}
    if pt["nfiles"] == 2:
        trajs[n2] = est2
    al = pt["align"]
    use_ref = al != "none"
    if pt.get("downsample"):
        trajs = {k: pl.downsample(t, pt["downsample"], evo_downsample_ids)
                 for k, t in trajs.items()}
        if use_ref:
            ref = pl.downsample(ref, pt["downsample"], evo_downsample_ids)
    if pt.get("motion_filter"):
        d, a = pt["motion_filter"]
        trajs = {k: pl.motion_filter(t, d, a) for k, t in trajs.items()}
        if use_ref:
            ref = pl.motion_filter(ref, d, a)
    if pt["merge"]:
        if fmt == "kitti":
            raise pl.Refusal("merge-kitti", allowed_only=True)
        trajs = {"merged_trajectory": pl.merge(list(trajs.values()))}
    if pt["t_offset"]:
        if fmt == "kitti":
            raise pl.Refusal("t_offset-kitti", allowed_only=True)
        for t in trajs.values():
            t.stamps = [x + pt["t_offset"] for x in t.stamps]
    n = pt.get("n_to_align", -1)
    if n != -1 and al not in ("a", "s", "as", "s+origin"):
        raise pl.Refusal("n_to_align-useless", allowed_only=True)
    synced = (fmt == "kitti" and use_ref) or al != "none"
    if synced:
        for k in list(trajs):
            t = trajs[k]
            if fmt == "kitti":
                rtmp = ref
            else:
                rtmp, t = pl.associate(ref, t, pt.get("t_max_diff", 0.01),
                                       resolver=evo_association)
            if al in ("a", "s", "as", "s+origin"):
                t, _ = pl.align(t, rtmp, correct_scale=al in ("s", "as",
                                                              "s+origin"),
                                only_scale=al in ("s", "s+origin"), n=n)
            if al in ("origin", "s+origin"):
                t, _ = pl.align_origin(t, rtmp)
            trajs[k] = t
    side, inv, prop, mat, form = pt["transform"]
    if side != "none":
        T = TRANSFORMS[mat]
        if inv:
            T = np.linalg.inv(T)
        trajs = {k: pl.transform(t, T, right=side == "right", propagate=prop)
                 for k, t in trajs.items()}
    out = dict(trajs)
    if use_ref:
        out["ref_nh" if fmt == "euroc" and pt.get("header") is False
            else ("ref_e" if ep else "ref")] = ref
    if pt.get("project"):
        out = {k: project_model(t, pt["project"]) for k, t in out.items()}
    return out


def evo_downsample_ids(n, N):
    """kept indices of evo's own downsample() on n tagged poses"""
    from evo.core.trajectory import PosePath3D
    o = PosePath3D(poses_se3=[geom.pose(np.eye(3), [float(k), 0.0, 0.0])
                              for k in range(n)])
    o.downsample(N)
    return [int(round(p[0])) for p in o.positions_xyz]


def project_model(t, plane):
    """positions by the definition; the orientation of a non-planar pose is
    the one step the property leaves numerically open: evo's own primitive is
    applied to the model's pre-projection poses (C14 decides that primitive)"""
    from evo.core.trajectory import PosePath3D, Plane
    ps, nd = pl.project_positions(t, plane)
    o = PosePath3D(poses_se3=[geom.pose(R, p) for R, p in zip(t.Rs, t.ps)])
    o.project(Plane(plane))
    return RTraj([np.array(M[:3, :3]) for M in o.poses_se3], ps, t.stamps)


def compare_export(path, exp_kind, model, label):
    if not os.path.exists(path):
        return ["%s: expected export %s is missing" % (label, path)]
    with open(path) as f:
        text = f.read()
    try:
        if exp_kind == "tum":
            stamps, ps, qs = rfiles.parse_tum(text)
            Rs = [geom.quat_wxyz_to_rot(q) for q in qs]
        else:
            Ms = rfiles.parse_kitti(text)
            stamps, ps, Rs = None, [M[:3, 3] for M in Ms], [M[:3, :3]
                                                            for M in Ms]
    except ValueError as e:
        return ["%s: exported file does not follow the convention: %s" %
                (label, e)]
    if len(ps) != model.n:
        return ["%s: exported %d poses, expected %d" % (label, len(ps),
                                                         model.n)]
    sc = max(1.0, max(np.abs(p).max() for p in model.ps))
    for k in range(model.n):
        if stamps is not None and model.stamps is not None and \
                stamps[k] != model.stamps[k]:
            return ["%s: timestamp %d is %r, expected %r" %
                    (label, k, stamps[k], model.stamps[k])]
        if not common.close(ps[k], model.ps[k], sc):
            return ["%s: position %d is %s, expected %s" %
                    (label, k, np.asarray(ps[k]).tolist(),
                     model.ps[k].tolist())]
        if not common.close(Rs[k], model.Rs[k]):
            return ["%s: orientation %d differs from the documented "
                    "processing order" % (label, k)]
    return []


def run_point(pt):
    """execute one lattice point in the current directory"""
    argv, exp_kind, ext = argv_of(pt)
    fmt = pt.get("fmt", "tum")
    for f in os.listdir("."):
        if f.endswith(".tum") or f.endswith(".kitti"):
            os.remove(f)
    try:
        exp = expected(pt)
        refusal = None
    except pl.Refusal as r:
        exp, refusal = None, r
    except pl.Ambiguous as a:
        return [], "ambiguous:" + str(a)
    except pl.AssociationViolation as v:
        return ["time association with the reference: %s" % v], "exported"
    if refusal is None and exp_kind == "tum" and fmt == "kitti":
        refusal = pl.Refusal("tum-export-without-stamps")
    if exp is not None:
        # a second run in the same directory: exports left over from an
        # earlier run are there already (warnings are off: they get replaced)
        for name in exp:
            with open("%s.%s" % (name, exp_kind), "w") as f:
                f.write("# stale export of an earlier run\n1 2 3\n")
    res = cli.run_cli("traj", argv)
    msgs = []
    if refusal is not None:
        refused = cli.is_evo_refusal(res) or res.exit_code not in (None, 0)
        if res.exc is not None and not cli.is_evo_refusal(res):
            msgs.append("evo_traj crashed with %s: %s (expected refusal: %s)"
                        % (type(res.exc).__name__, res.exc, refusal.kind))
        elif not refused and not refusal.allowed_only:
            msgs.append("evo_traj succeeded although the request must be "
                        "refused (%s)" % refusal.kind)
        return msgs, "refused:" + refusal.kind
    if not res.ok:
        return ["evo_traj failed (%s: %s) for a valid request" %
                (res.outcome(), res.exc)], "failed"
    names = set()
    for name, model in exp.items():
        path = "%s.%s" % (name, exp_kind)
        names.add(path)
        msgs += compare_export(path, exp_kind, model, name)
    extra = [f for f in os.listdir(".")
             if (f.endswith(".tum") or f.endswith(".kitti")) and f not in names]
    if extra:
        msgs.append("unexpected export files %s" % extra)
    # without processing options the export equals the input, bit for bit
    if not msgs and exp_kind == "tum" and fmt == "tum" and is_identity(pt):
        for name in exp:
            with open(name + ".txt") as f:
                a = rfiles.parse_tum(f.read())
            with open(name + ".tum") as f:
                b = rfiles.parse_tum(f.read())
            if not all(common.same_bits(x, y) for x, y in zip(a, b)):
                msgs.append("%s: export differs from the input although no "
                            "processing option was given" % name)
    return msgs, "exported"


def is_identity(pt):
    return (not pt.get("downsample") and not pt.get("motion_filter")
            and not pt["merge"] and not pt["t_offset"]
            and pt["align"] == "none" and pt["transform"][0] == "none"
            and not pt.get("project"))


def shard_points(pts):
    wd = tempfile.mkdtemp(dir=os.getcwd(), prefix="c15_")
    old = os.getcwd()
    os.chdir(wd)
    acc = Acc()
    try:
        write_fixture(wd)
        for pt in pts:
            msgs, outcome = run_point(pt)
            acc.count("evaluations")
            acc.count("transitions")
            acc.outcome(outcome.split(":")[0] + (
                ":" + outcome.split(":")[1] if outcome.startswith("refused")
                else ""))
            acc.seen("states", json.dumps(pt, sort_keys=True, default=str))
            if outcome == "exported" and not is_identity(pt):
                acc.count("nontrivial")
            if msgs:
                inv_sim3 = pt["transform"][1] and pt["transform"][3] == "sim3"
                acc.violation("traj", "evo_traj %s: %s" %
                              (" ".join(argv_of(pt)[0]), "; ".join(msgs[:2])),
                              pt, {"kind": "invert-sim3" if inv_sim3
                                   else "other"})
            elif acc.counters["evaluations"] % 997 == 1:
                acc.sample({"argv": argv_of(pt)[0], "outcome": outcome})
    finally:
        os.chdir(old)
    return acc


def points(ctx):
    if ctx.thorough:
        pts = lattice.product(DIMS)
    else:
        pts = lattice.pairwise(DIMS, seed=ctx.seed)
        # + the full sub-lattice of the transformation options
        base = {"nfiles": 1, "downsample": None, "motion_filter": None,
                "merge": False, "t_offset": 0.0, "align": "none",
                "n_to_align": -1, "project": None, "export": "tum",
                "t_max_diff": 0.01}
        for tf in TRANSF:
            for al in ("none", "as"):
                for proj in (None, "xy"):
                    for export in ("tum", "kitti"):
                        for nfiles in (1, 2):
                            p = dict(base)
                            p.update(transform=tf, align=al, project=proj,
                                     export=export, nfiles=nfiles)
                            pts.append(p)
        pts.append(dict(base, transform=TRANSF[0]))
        # + the full product of the processing options (no transformation)
        proc = [("nfiles", [1, 2]), ("downsample", [None, 5]),
                ("motion_filter", DIMS[2][1]), ("merge", [False, True]),
                ("t_offset", [0.0, 0.125, -0.125]), ("align", ALIGN),
                ("n_to_align", [-1, 4, 3]), ("project", [None, "xz"]),
                ("t_max_diff", [0.01, 0.3]), ("export", ["tum", "kitti"])]
        for q in lattice.product(proc):
            pts.append(dict(q, transform=TRANSF[0]))
    # + the two estimates in the other order (the one with fewer poses
    # first) x down-sampling to a count between their sizes
    for q in lattice.product([("downsample", [None, 5, 7]),
                              ("align", ["none", "sync", "as"]),
                              ("merge", [False, True]),
                              ("motion_filter", [None, (2.5, 170.0)])]):
        pts.append(dict(q, transform=TRANSF[0], order="swapped", nfiles=2,
                        t_offset=0.0, n_to_align=-1, project=None,
                        export="tum", t_max_diff=0.01))
    # ... x a number of poses to align that lies between their sizes
    for q in lattice.product([("order", [None, "swapped"]),
                              ("align", ["a", "s", "as", "s+origin"]),
                              ("n_to_align", [3, 4, 7, -1]),
                              ("t_max_diff", [0.01, 0.3])]):
        pts.append(dict(q, transform=TRANSF[0], nfiles=2, downsample=None,
                        motion_filter=None, merge=False, t_offset=0.0,
                        project=None, export="tum"))
    # + the same files with epoch-sized timestamps (1.5e9 s) x every use of
    # the reference
    for q in lattice.product([("nfiles", [1, 2]), ("align", ALIGN),
                              ("t_offset", [0.0, 0.125]),
                              ("t_max_diff", [0.01, 0.3]),
                              ("merge", [False, True])]):
        pts.append(dict(q, transform=TRANSF[0], epoch=True,
                        downsample=None, motion_filter=None,
                        n_to_align=-1, project=None, export="tum"))
    # file names that contain the reference's name x every use of the
    # reference
    nm = [("names", ["affix"]), ("nfiles", [1, 2]), ("align", ALIGN),
          ("downsample", [None, 5]), ("merge", [False, True]),
          ("export", ["tum", "kitti"]), ("project", [None, "xy"])]
    for q in lattice.product(nm):
        pts.append(dict(q, transform=TRANSF[0], motion_filter=None,
                        t_offset=0.0, n_to_align=-1, t_max_diff=0.01))
    fpts = lattice.product(FORMAT_DIMS) if ctx.thorough else \
        lattice.pairwise(FORMAT_DIMS, seed=ctx.seed)
    return pts + fpts


def run(ctx):
    pts = points(ctx)
    acc = pmap_acc(ctx, __name__, "shard_points", shard(pts, ctx.jobs * 2))
    acc.rule = (
        "lattice over %s; %s. Oracle: reference pipeline in the documented "
        "order + independent TUM/KITTI parsers. non-trivial = successful "
        "exports of runs with at least one processing option" %
        (", ".join("%s(%d)" % (n, len(v)) for n, v in DIMS),
         "full product" if ctx.thorough else
         "pairwise-covering subset + full transformation sub-lattice + full "
         "product of the processing options") +
        "; + epoch-sized timestamps x nfiles x alignment x t_offset x "
        "t_max_diff x merge; + file names containing the reference's file "
        "name as suffix / "
        "prefix x nfiles x alignment x downsample x merge x export x project")
    acc.bounds = {"lattice_points": len(pts)}
    acc.exhaustive = True
    acc.assumptions = [
        "the quick tier covers all pairs of option values, not all "
        "combinations; the thorough tier enumerates the full product",
        "orientation after projecting a non-planar pose is taken from evo's "
        "own project() applied to the model's pre-projection poses",
        "a propagated Sim(3) transformation is read literally: every "
        "relative motion D_i becomes D_i*T (4x4 product), the rotation "
        "blocks of the resulting chain are normalised",
    ]
    return acc


def replay(part, case):
    case = dict(case)
    case["transform"] = tuple(case["transform"])
    if case.get("motion_filter"):
        case["motion_filter"] = tuple(case["motion_filter"])
    wd = tempfile.mkdtemp(dir=os.getcwd(), prefix="c15r_")
    old = os.getcwd()
    os.chdir(wd)
    try:
        write_fixture(wd)
        return run_point(case)[0]
    finally:
        os.chdir(old)
