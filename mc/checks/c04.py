"""
C04 - trajectory alignment applies exactly the returned transform, uses only
the first n pairs, never worsens the fit, is idempotent; the alignment matrix
recorded by ape()/rpe()/evo_ape maps the unaligned estimate onto the stored one.

E1 over all grid paths of 3..5 (thorough 6) poses from a 5-step alphabet x
generating transformations x noise x mode x n x storage mode x cache state.
"""
import copy
import itertools
import os

import numpy as np

from mc import common
from mc.engine import cli
from mc.engine.core import Acc, pmap_acc, shard
from mc.refmodel import files as rfiles
from mc.refmodel import geom

STEPS = [np.array(s, dtype=float)
         for s in ((1, 0, 0), (0, 1, 0), (0, 0, 1), (1, 1, 0), (0, 2, 1))]
ROT24 = geom.rot24()
GENS = [  # (rotation index, scale, translation)
    (5, 1.0, np.array([1.0, 2.0, 3.0])),
    (13, 2.0, np.array([0.0, -1.0, 4.0])),
    (20, 0.5, np.array([100.0, 200.0, -50.0])),
    (7, 1e-2, np.array([0.0, 0.0, 0.0])),
    (17, 1e2, np.array([1.0, 1.0, 1.0])),
    # pure scalings about the origin (R = I, t = 0): the alignment must still
    # apply the scale
    (0, 2.0, np.zeros(3)),
    (0, 0.5, np.zeros(3)),
]
assert np.array_equal(ROT24[0], np.eye(3))
FAR = np.array([4620.37, 54280.91, 310.55])
MODES = ("rigid", "similarity", "scale_only", "origin")
STORAGE = ("se3", "quat", "se3+read", "quat+read")


def far_gen(g):
    while not 0.5 <= GENS[g][1] <= 2.0:
        g = (g + 1) % len(GENS)
    return g


def shape(seq):
    ps = [np.zeros(3)]
    for s in seq:
        ps.append(ps[-1] + STEPS[s])
    Rs = [ROT24[(7 * k + 3 * sum(seq) + seq[0]) % 24] for k in range(len(ps))]
    return Rs, ps


def make_pair(case):
    Rs, ps = shape(case["seq"])
    gi, sc, tr = GENS[case["gen"]]
    G = ROT24[gi]
    rR = [G @ R for R in Rs]
    rp = [sc * (G @ p) + tr for p in ps]
    noise = case["noise"]
    if noise == "one":
        k = (sum(case["seq"]) + 1) % len(ps)
        rp[k] = rp[k] + sc * np.array([0.0, 1.0, 0.0])
    elif noise == "unrelated":
        seq2 = [(s + 1 + i) % len(STEPS) for i, s in enumerate(case["seq"])]
        R2, p2 = shape(seq2)
        rR, rp = [G @ R for R in R2], [sc * (G @ p) + tr for p in p2]
    if case.get("far"):
        # both trajectories far from the origin compared with their extent
        # (map coordinates): the same similarity up to its translation
        ps = [p + FAR for p in ps]
        rp = [p + FAR for p in rp]
    return (Rs, ps), (rR, rp)


def rmse(pa, pb):
    d = np.array(pa) - np.array(pb)
    return float(np.sqrt((d * d).sum() / len(pa)))


def run_case(case):
    if case.get("debuglog"):
        # evo's logger enabled for DEBUG, as in every CLI run and after
        # log.configure_logging() in a script
        import logging
        lg = logging.getLogger("evo")
        old = lg.level
        lg.setLevel(logging.DEBUG)
        try:
            return _run_case(case)
        finally:
            lg.setLevel(old)
    return _run_case(case)


def _run_case(case):
    (Rs, ps), (rR, rp) = make_pair(case)
    N = len(ps)
    mode, n, storage = case["mode"], case["n"], case["storage"]
    est = common.make_traj(Rs, ps, None, storage)
    ref = common.make_traj(rR, rp, None, storage)
    ref_snap = common.snapshot(ref)
    est_snap = common.snapshot(est)
    # a second object built from the very same pose matrices (a second handle
    # on the unaligned estimate): aligning the estimate must not reach it
    observer = obs_snap = None
    if storage.startswith("se3"):
        from evo.core.trajectory import PosePath3D
        observer = PosePath3D(poses_se3=list(est.poses_se3))
        obs_snap = common.snapshot(observer)
    msgs = []
    info = {}
    m = N if n == -1 else n
    x = np.array(ps[:m]).T
    y = np.array(rp[:m]).T
    scale_coord = max(1.0, np.abs(y).max(), np.abs(x).max())
    from evo.core.geometry import GeometryException
    try:
        if mode == "origin":
            T = est.align_origin(ref)
        else:
            r, t, s = est.align(ref, correct_scale=mode == "similarity",
                                correct_only_scale=mode == "scale_only", n=n)
    except GeometryException:
        info["outcome"] = "refused"
        if geom.cross_cov_rank_safe(x, y) >= 2:
            msgs.append("alignment refused although the first n pairs "
                        "determine the rotation")
        if common.snapshot(est) != est_snap:
            msgs.append("refused alignment changed the estimate")
        return msgs, info
    info["outcome"] = mode
    if common.snapshot(ref) != ref_snap:
        msgs.append("alignment modified the reference")
    if observer is not None and common.snapshot(observer) != obs_snap:
        msgs.append("alignment modified another object that was built from "
                    "the same pose matrices as the estimate")
    v = common.views(est)
    if v["n"] != N:
        return ["alignment changed the number of poses"], info
    with_scale = mode in ("similarity", "scale_only")
    if mode == "origin":
        P0 = geom.pose(Rs[0], ps[0])
        Te = geom.pose(rR[0], rp[0]) @ geom.pose_inv(P0)
        if not common.close(T, Te, scale_coord):
            msgs.append("align_origin returned a matrix that is not "
                        "ref_0 * est_0^-1")
        if not common.close(v["poses"][0], geom.pose(rR[0], rp[0]),
                            scale_coord):
            msgs.append("first pose is not mapped onto the reference's first "
                        "pose")
        for k in range(N):
            exp = T @ geom.pose(Rs[k], ps[k])
            if not common.close(v["poses"][k], exp, scale_coord):
                msgs.append("pose %d not moved by exactly the returned "
                            "transformation" % k)
                break
        for k in range(N - 1):
            rel0 = geom.pose_inv(geom.pose(Rs[k], ps[k])) @ geom.pose(
                Rs[k + 1], ps[k + 1])
            rel1 = geom.pose_inv(v["poses"][k]) @ v["poses"][k + 1]
            if not common.close(rel0, rel1, scale_coord):
                msgs.append("relative pose %d->%d not preserved" % (k, k + 1))
                break
        return msgs, info
    r, t, s = np.array(r), np.array(t), float(s)
    if not with_scale and s != 1.0:
        msgs.append("scale %r returned without scale correction" % s)
    for k in range(N):
        if mode == "scale_only":
            ep, eR = s * ps[k], Rs[k]
        else:
            ep, eR = s * (r @ ps[k]) + t, r @ Rs[k]
        if not common.close(v["xyz"][k], ep, scale_coord) or not common.close(
                v["poses"][k][:3, :3], eR) or not common.close(
                    v["poses"][k][:3, 3], ep, scale_coord):
            msgs.append("pose %d was not moved by exactly the returned "
                        "similarity (%s)" % (k, mode))
            break
        q = v["quat"][k]
        if not common.close(geom.quat_wxyz_to_rot(q), eR):
            msgs.append("orientation %d (quaternion view) not moved by the "
                        "returned rotation" % k)
            break
    # the parameters are the optimum of the first n pairs
    h = geom.horn(x, y, with_scale)
    determined = geom.cross_cov_rank_safe(x, y) >= 2 and \
        h["gap"] > 1e-3 * h["lam"]
    info["determined"] = bool(determined)
    if determined:
        if not (common.close(r, h["R"]) and abs(s - h["c"]) <= 1e-9 * h["c"]
                and common.close(t, h["t"], scale_coord)):
            msgs.append("returned parameters are not the least-squares "
                        "optimum of the first %d pairs" % m)
        # ... and do not depend on poses beyond n
        if m < N:
            ps2 = [p.copy() for p in ps]
            rp2 = [p.copy() for p in rp]
            ps2[-1] = ps2[-1] + np.array([3.0, -7.0, 11.0])
            rp2[-1] = rp2[-1] - np.array([5.0, 1.0, 2.0])
            e2 = common.make_traj(Rs, ps2, None, storage)
            f2 = common.make_traj(rR, rp2, None, storage)
            r2, t2, s2 = e2.align(f2, correct_scale=mode == "similarity",
                                  correct_only_scale=mode == "scale_only",
                                  n=n)
            if not (common.same_bits(r, r2) and common.same_bits(t, t2)
                    and s == s2):
                msgs.append("parameters depend on poses beyond the first n")
    if mode in ("rigid", "similarity"):
        before = rmse(ps[:m], rp[:m])
        after = rmse(v["xyz"][:m], rp[:m])
        opt = np.sqrt(h["sse"] / m)
        tolr = 1e-9 * max(1.0, before, scale_coord)
        if after > before + tolr:
            msgs.append("RMSE got worse: %.12g -> %.12g" % (before, after))
        if after > opt + max(tolr, 1e-6 * opt):
            msgs.append("RMSE %.12g above the optimum %.12g" % (after, opt))
        info["improved"] = after < before - tolr
    # idempotence
    if determined:
        r3, t3, s3 = est.align(ref, correct_scale=mode == "similarity",
                               correct_only_scale=mode == "scale_only", n=n)
        tol_t = 1e-9 * scale_coord * max(1.0, 1.0 / max(s, 1e-12))
        if abs(s3 - 1.0) > 1e-9:
            msgs.append("second alignment is not the identity: s=%r" % s3)
        if mode != "scale_only" and (not common.close(r3, np.eye(3), 1.0)
                                     or np.abs(t3).max() > tol_t):
            msgs.append("second alignment is not the identity: |r-I|=%.3g "
                        "|t|=%.3g" % (np.abs(r3 - np.eye(3)).max(),
                                      np.abs(t3).max()))
    return msgs, info


def shard_cases(arg):
    seqs, thorough = arg
    acc = Acc()
    for seq in seqs:
        N = len(seq) + 1
        ns = [-1] + list(range(3, N + 1))
        if thorough and N <= 5:
            gens = range(len(GENS))
        elif thorough:
            gens = sorted({(sum(seq) + seq[0] + j * 2) % len(GENS)
                           for j in range(3)})
        else:
            gens = [(sum(seq) + seq[0]) % len(GENS)]
        # far from the origin only with moderate scales: with the 1e-2 / 1e2
        # generators the rounding of the coordinates (eps * 5e4) is no longer
        # small against the extent of the smaller point set and the 1e-9
        # tolerances would not be justified
        for gen, far in [(g, False) for g in gens] + [
                (far_gen(gens[0]), True), (gens[0], "debuglog")]:
            for noise in ("none", "one", "unrelated"):
                for mode in MODES:
                    for n in (ns if mode != "origin" else [-1]):
                        for storage in (STORAGE if not far else
                                        ("se3", "quat+read")):
                            case = {"seq": list(seq), "gen": gen,
                                    "noise": noise, "mode": mode, "n": n,
                                    "storage": storage}
                            if far == "debuglog":
                                case["debuglog"] = True
                            elif far:
                                case["far"] = True
                            msgs, info = run_case(case)
                            acc.count("evaluations")
                            acc.count("transitions")
                            acc.outcome(info.get("outcome", "?"))
                            if info.get("improved") or (
                                    noise != "none" and
                                    info.get("outcome") != "refused"):
                                acc.count("nontrivial")
                            if msgs:
                                acc.violation("align", "; ".join(msgs[:2]),
                                              case, {"kind": mode})
                            elif acc.counters["evaluations"] % 40009 == 1:
                                acc.sample(case)
    return acc


# ----------------------------------------------------- recorded alignment
OPTS = [
    ("-a", dict(align=True)),
    ("-s", dict(correct_scale=True)),
    ("-as", dict(align=True, correct_scale=True)),
    ("--align_origin", dict(align_origin=True)),
    ("-s --align_origin", dict(correct_scale=True, align_origin=True)),
    ("-a --align_origin", dict(align=True, align_origin=True)),
]


def apply_sim3(A, Rs, ps):
    s = np.cbrt(np.linalg.det(A[:3, :3]))
    Ra = A[:3, :3] / s
    return [Ra @ R for R in Rs], [A[:3, :3] @ p + A[:3, 3] for p in ps]


def expected_matrix(opt_name, Rs, ps, rR, rp, n):
    """the transformation the options ask for, from the reference model
    (None if the configuration does not determine it)"""
    from mc.refmodel import pipeline as pl
    est, ref = pl.RTraj(Rs, ps), pl.RTraj(rR, rp)
    A = np.eye(4)
    try:
        if opt_name in ("-a", "-s", "-as", "-s --align_origin",
                        "-a --align_origin"):
            est, A = pl.align(est, ref, correct_scale="s" in
                              opt_name.split()[0],
                              only_scale=opt_name.split()[0] == "-s", n=n)
        if "--align_origin" in opt_name:
            est, T = pl.align_origin(est, ref)
            A = T @ A
    except (pl.Refusal, pl.Ambiguous):
        return None
    return A


def check_recorded(A, Rs, ps, stored, label, scale_coord, expect=None):
    v = common.views(stored)
    if A is None:
        return ["%s: no alignment_transformation_sim3 recorded" % label]
    if expect is not None:
        s = np.cbrt(np.linalg.det(expect[:3, :3]))
        if not common.close(np.array(A)[:3, :3], expect[:3, :3], max(1.0, s)) \
                or not common.close(np.array(A)[:3, 3], expect[:3, 3],
                                    scale_coord):
            return ["%s: recorded alignment is not the one determined by the "
                    "first n pose pairs (reference model)" % label]
    eR, ep = apply_sim3(np.array(A), Rs, ps)
    if v["n"] != len(ps):
        return ["%s: stored estimate has %d poses, expected %d" %
                (label, v["n"], len(ps))]
    for k in range(len(ps)):
        if not common.close(v["xyz"][k], ep[k], scale_coord) or \
                not common.close(v["poses"][k][:3, :3], eR[k]):
            return ["%s: recorded alignment matrix does not map the "
                    "unaligned estimate onto the stored estimate (pose %d)" %
                    (label, k)]
    return []


def run_recorded(case):
    from evo import main_ape, main_rpe
    from evo.core import metrics
    from evo.core.units import Unit
    from evo.core.geometry import GeometryException
    (Rs, ps), (rR, rp) = make_pair(case)
    N = len(ps)
    name, kw = OPTS[case["opt"]]
    stamps = [0.5 * k for k in range(N)]
    sc = max(1.0, np.abs(np.array(rp)).max())
    msgs = []
    for tool in ("ape", "rpe"):
        est = common.make_traj(Rs, ps, stamps, case["storage"])
        ref = common.make_traj(rR, rp, stamps, case["storage"])
        try:
            if tool == "ape":
                res = main_ape.ape(ref, est,
                                   metrics.PoseRelation.translation_part,
                                   n_to_align=case["n"], est_name="est", **kw)
            else:
                res = main_rpe.rpe(ref, est,
                                   metrics.PoseRelation.translation_part, 1,
                                   Unit.frames, n_to_align=case["n"],
                                   est_name="est", **kw)
        except GeometryException:
            continue
        A = res.np_arrays.get("alignment_transformation_sim3")
        msgs += check_recorded(A, Rs, ps, res.trajectories["est"],
                               "%s(%s, n=%d)" % (tool, name, case["n"]), sc,
                               expected_matrix(name, Rs, ps, rR, rp,
                                               case["n"]))
    return msgs


def shard_recorded(arg):
    seqs = arg
    acc = Acc()
    for seq in seqs:
        N = len(seq) + 1
        g0 = sum(seq) % len(GENS)
        for gen, far in ((g0, False), ((g0 + 1) % len(GENS), False),
                         (far_gen(g0), True)):
            for noise in ("none", "one"):
                for opt in range(len(OPTS)):
                    for n in sorted({-1, 3, N - 1, N}):
                        case = {"seq": list(seq), "gen": gen, "noise": noise,
                                "opt": opt, "n": n, "far": far,
                                "storage": STORAGE[(sum(seq) + opt) % 4]}
                        msgs = run_recorded(case)
                        acc.count("evaluations")
                        acc.count("transitions", 2)
                        acc.count("nontrivial")
                        acc.outcome("recorded:" + OPTS[opt][0])
                        if msgs:
                            acc.violation("recorded", "; ".join(msgs[:2]),
                                          case, {"kind": "recorded",
                                                 "opt": OPTS[opt][0]})
    return acc


def cli_part(ctx):
    """evo_ape / evo_rpe end to end: the matrix in the saved zip maps the
    estimate as loaded from the file onto the estimate stored in the zip"""
    from evo.tools import file_interface
    acc = Acc()
    case = {"seq": [0, 1, 2, 3], "gen": 1, "noise": "one"}
    (Rs, ps), (rR, rp) = make_pair(case)
    stamps = [0.5 * k for k in range(len(ps))]
    wd = ctx.workdir
    rfiles.write_tum(os.path.join(wd, "c04_ref.tum"), stamps, rp, rR)
    rfiles.write_tum(os.path.join(wd, "c04_est.tum"), stamps, ps, Rs)
    with open(os.path.join(wd, "c04_cfg.json"), "w") as f:
        f.write('{"save_traj_in_zip": true}')
    sc = max(1.0, np.abs(np.array(rp)).max())
    for tool in ("ape", "rpe"):
        for name, _ in OPTS:
            for n in (-1, 3):
                out = os.path.join(wd, "c04_out.zip")
                if os.path.exists(out):
                    os.remove(out)
                argv = ["tum", "c04_ref.tum", "c04_est.tum"] + name.split() + [
                    "--n_to_align", str(n), "--save_results", out,
                    "--no_warnings", "-c", "c04_cfg.json"]
                res = cli.run_cli(tool, argv)
                acc.count("evaluations")
                acc.count("transitions")
                acc.count("nontrivial")
                acc.outcome("cli:" + res.outcome())
                case2 = {"tool": tool, "opts": name, "n": n}
                if res.exit_code == 2 and res.args is None:
                    # the parser itself rejects this combination
                    acc.outcome("cli:parser-rejects " + name)
                    continue
                if not res.ok:
                    acc.violation("cli", "evo_%s %s failed: %s %s" %
                                  (tool, name, res.outcome(), res.exc), case2,
                                  {"kind": "cli-fail"})
                    continue
                r = file_interface.load_res_file(out, load_trajectories=True)
                A = r.np_arrays.get("alignment_transformation_sim3")
                stored = r.trajectories.get("c04_est.tum")
                if stored is None:
                    acc.violation("cli", "no estimate stored in the zip",
                                  case2, {"kind": "cli-fail"})
                    continue
                msgs = check_recorded(A, Rs, ps, stored, "evo_%s %s n=%d" %
                                      (tool, name, n), sc,
                                      expected_matrix(name, Rs, ps, rR, rp,
                                                      n))
                if msgs:
                    acc.violation("cli", "; ".join(msgs), case2,
                                  {"kind": "recorded", "opt": name})
    return acc


def shard_traj_cli(cases):
    """evo_traj --align / --correct_scale with --n_to_align over two files
    of different lengths in both orders: every file is aligned on its own
    first n pose pairs (C15's reference pipeline)"""
    import tempfile
    from mc.checks import c15
    acc = Acc()
    wd = tempfile.mkdtemp(dir=os.getcwd(), prefix="c04cli_")
    old = os.getcwd()
    os.chdir(wd)
    try:
        c15.write_fixture(wd)
        for case in cases:
            msgs, outcome = c15.run_point(case)
            acc.count("evaluations")
            acc.count("transitions")
            acc.count("nontrivial")
            acc.outcome("evo_traj/" + outcome.split(":")[0])
            if msgs:
                acc.violation("traj-cli", "evo_traj %s: %s" % (
                    " ".join(c15.argv_of(case)[0]), "; ".join(msgs[:2])),
                    case, {"kind": "traj-cli"})
    finally:
        os.chdir(old)
    return acc


def traj_cli_cases():
    from mc.checks import c15
    return [{"nfiles": 2, "order": order, "downsample": None,
             "motion_filter": None, "merge": False, "t_offset": 0.0,
             "align": al, "n_to_align": n, "transform": c15.TRANSF[0],
             "project": None, "export": "tum", "t_max_diff": tm}
            for order in (None, "swapped")
            for al in ("a", "s", "as", "origin", "s+origin")
            for n in (-1, 3, 4, 7) for tm in (0.01, 0.3)]


def all_seqs(maxn):
    out = []
    for n in range(3, maxn + 1):
        out.extend(itertools.product(range(len(STEPS)), repeat=n - 1))
    return out


def run(ctx):
    seqs = all_seqs(ctx.pick(5, 6))
    acc = pmap_acc(ctx, __name__, "shard_cases",
                   [(s, ctx.thorough) for s in shard(seqs, 64)])
    rec = [s for s in all_seqs(ctx.pick(4, 5))]
    acc.merge(pmap_acc(ctx, __name__, "shard_recorded", shard(rec, 32)))
    acc.merge(cli_part(ctx))
    acc.merge(pmap_acc(ctx, __name__, "shard_traj_cli", [traj_cli_cases()]))
    acc.counters["states"] = acc.counters["evaluations"]
    acc.rule = (
        "estimate = every grid path of 3..%d poses over a 5-step alphabet "
        "with cube-rotation orientations; reference = its image under %s "
        "generating similarities (scales 1e-2..1e2), near the origin and "
        "displaced by (4620.37, 54280.91, 310.55), with noise {none, one "
        "pose moved, unrelated path}; x {rigid, similarity, scale-only, "
        "origin} x n in {-1, 3..N} x {matrices, positions+quaternions} x "
        "{nothing cached, all cached}; recorded-matrix part: ape()/rpe() for "
        "6 alignment option combinations x n_to_align {-1,3}, and the same "
        "through evo_ape/evo_rpe --save_results. non-trivial = noisy / "
        "unrelated data or strictly improved RMSE" %
        (ctx.pick(5, 6), "all 7 (3 of 7 for 6 poses)" if ctx.thorough else "1 of 7 (cycled)"))
    return acc


def replay(part, case):
    if part == "align":
        return run_case(case)[0]
    if part == "recorded":
        return run_recorded(case)
    if part == "traj-cli":
        case = dict(case, transform=tuple(case["transform"]))
        return [v["msg"] for v in shard_traj_cli([case]).violations]
    if part == "cli":
        class _C(object):
            workdir = os.getcwd()
        a = cli_part(_C())
        return [v["msg"] for v in a.violations
                if v["case"] == case]
    return []
