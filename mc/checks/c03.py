"""
C03 - Umeyama alignment: proper, least-squares optimal, equivariant, refuses
degenerate input.   E1 over all small grid point sets x transformation
alphabet, oracle = Horn's quaternion method (mc.refmodel.geom.horn).
"""
import itertools

import numpy as np

from mc import common
from mc.engine.core import Acc, pmap_acc, shard
from mc.refmodel import geom

GRID3 = [np.array(p, dtype=float) for p in itertools.product((-1, 0, 1),
                                                              repeat=3)]
CUBE = [np.array(p, dtype=float) for p in itertools.product((0, 1), repeat=3)]
ROT24 = geom.rot24()
SCALE_T = [
    (1.0, np.zeros(3)),
    (2.0, np.array([1.0, 2.0, 3.0])),
    (0.5, np.array([5e5 + .25, 5.4e6 + .5, 100.0])),
    (1e-3, np.array([1.0, 2.0, 3.0])),
    (1e6, np.zeros(3)),
]
MIRROR = np.diag([1.0, 1.0, -1.0])


def _umeyama(x, y, with_scale):
    from evo.core import geometry
    try:
        r, t, c = geometry.umeyama_alignment(x, y, with_scale)
        return ("ok", np.array(r), np.array(t), float(c))
    except geometry.GeometryException as e:
        return ("refused", str(e))
    except Exception as e:  # e.g. numpy's LinAlgError escaping
        return ("crashed", "%s: %s" % (type(e).__name__, e))


def centred_sse(x, y, R, t, c):
    """numerically stable SSE: centred residuals + n |dt|^2"""
    mx = x.mean(axis=1, keepdims=True)
    my = y.mean(axis=1, keepdims=True)
    xc, yc = x - mx, y - my
    d = yc - c * (R @ xc)
    dt = np.asarray(t).reshape(3, 1) - (my - c * (R @ mx))
    return float((d * d).sum() + x.shape[1] * float((dt * dt).sum()))


def cond_tols(x, y, c):
    """rounding-aware tolerances (dR, dc/c, dt): the centred coordinates carry
    an absolute error of eps*|coordinate|, i.e. a relative error of
    eps*|coordinate|/spread, which is what limits R, c and t"""
    n = x.shape[1]
    sx = np.sqrt(((x - x.mean(axis=1, keepdims=True))**2).sum() / n)
    sy = np.sqrt(((y - y.mean(axis=1, keepdims=True))**2).sum() / n)
    cx, cy = max(1.0, np.abs(x).max()), max(1.0, np.abs(y).max())
    tr = 1e-9 + 200 * 2.3e-16 * (cx / max(sx, 1e-300) + cy / max(sy, 1e-300))
    tt = tr * abs(c) * np.linalg.norm(x.mean(axis=1)) + 1e-9 * max(cx, cy)
    return tr, tr, tt


def judge(x, y, with_scale, gen=None, must_refuse=False, may_refuse=False):
    """run the real function on (x, y) and return (msgs, info)"""
    msgs = []
    res = _umeyama(x, y, with_scale)
    h = geom.horn(x, y, with_scale)
    coord = max(1.0, np.abs(x).max(), np.abs(y).max())
    determined = h["lam"] > 0 and h["gap"] > 1e-3 * h["lam"]
    info = {"determined": bool(determined), "outcome": res[0]}
    if res[0] == "crashed":
        return ["umeyama_alignment raised %s - neither a transformation nor "
                "the GeometryException that refuses degenerate input" %
                res[1]], info
    if res[0] == "refused":
        if determined and not may_refuse and not must_refuse:
            msgs.append("refused although the point sets determine the "
                        "rotation (Horn gap %.3g of %.3g)" %
                        (h["gap"], h["lam"]))
        return msgs, info
    if must_refuse:
        msgs.append("exactly degenerate input was aligned instead of refused")
        return msgs, info
    _, r, t, c = res
    if r.shape != (3, 3) or np.asarray(t).reshape(-1).shape != (3, ):
        return ["result has the wrong shape: r %s, t %s" %
                (r.shape, np.asarray(t).shape)], info
    # proper rotation
    if r.shape != (3, 3) or np.abs(r.T @ r - np.eye(3)).max() > 1e-9 \
            or abs(np.linalg.det(r) - 1.0) > 1e-9:
        msgs.append("rotation is not proper: det=%.6g, orth.err=%.3g" %
                    (np.linalg.det(r), np.abs(r.T @ r - np.eye(3)).max()))
    if not with_scale:
        if c != 1.0:
            msgs.append("scale %r != 1.0 without scale estimation" % c)
    elif not (c > 0):
        msgs.append("scale %r not positive" % c)
    # optimality against Horn and against the 24 cube rotations
    s_impl = centred_sse(x, y, r, t, c)
    s_ref = centred_sse(x, y, h["R"], h["t"], h["c"])
    tol = 1e-9 * (h["Sy"] + (c * c if with_scale else 1.0) * h["Sx"]) \
        + 100.0 * x.shape[1] * (4e-16 * coord)**2
    info["sse_excess"] = s_impl - s_ref
    if s_impl > s_ref + tol:
        msgs.append("not least-squares optimal: SSE %.12g > optimum %.12g" %
                    (s_impl, s_ref))
    info["reflection_case"] = bool(
        np.linalg.det((y - y.mean(axis=1, keepdims=True))
                      @ (x - x.mean(axis=1, keepdims=True)).T) < 0)
    if gen is not None and determined:
        R0, t0, c0 = gen
        if not with_scale and c0 != 1.0:
            pass  # generating map is not in the rigid class
        else:
            tr_, tc_, tt_ = cond_tols(x, y, c0)
            if np.abs(r - R0).max() > tr_ or abs(c - c0) > tc_ * c0 \
                    or np.abs(t - t0).max() > tt_:
                msgs.append("noise-free data: generating transformation not "
                            "reproduced (dR=%.3g dc=%.3g dt=%.3g)" %
                            (np.abs(r - R0).max(), abs(c - c0),
                             np.abs(t - t0).max()))
    info["result"] = (r, t, c)
    return msgs, info


def equivariance(x, y, with_scale, base, gi, hi, perm):
    """umeyama(g x, h y) = h o umeyama(x, y) o g^-1, and permutation
    invariance; only called for determined cases.  g, h from SCALE_T x ROT24"""
    msgs = []
    r, t, c = base
    G, (gs, gt) = ROT24[gi % 24], SCALE_T[gi % 3]
    H, (hs, ht) = ROT24[hi % 24], SCALE_T[(hi + 1) % 3]
    if not with_scale:
        gs = hs = 1.0
    gx = gs * (G @ x) + gt.reshape(3, 1)
    hy = hs * (H @ y) + ht.reshape(3, 1)
    res = _umeyama(gx, hy, with_scale)
    coord = max(1.0, np.abs(gx).max(), np.abs(hy).max())
    if res[0] != "ok":
        msgs.append("transformed copy of a determined case was refused")
        return msgs
    _, r2, t2, c2 = res
    # expected: y' = hs H (c r x + t) + ht,  x = G^T (x' - gt)/gs
    r_e = H @ r @ G.T
    c_e = hs * c / gs
    t_e = hs * (H @ t) + ht - c_e * (r_e @ gt)
    tr_, tc_, tt_ = cond_tols(gx, hy, c_e)
    tr0, _, tt0 = cond_tols(x, y, c)
    tr_, tt_ = tr_ + tr0, tt_ + hs * tt0 + tr0 * c_e * np.linalg.norm(
        gx.mean(axis=1))
    if np.abs(r2 - r_e).max() > tr_ or abs(c2 - c_e) > (tc_ + tr0) * c_e \
            or np.abs(t2 - t_e).max() > tt_:
        msgs.append("not equivariant under (g,h): dR=%.3g dc=%.3g dt=%.3g" %
                    (np.abs(r2 - r_e).max(), abs(c2 - c_e),
                     np.abs(t2 - t_e).max()))
    p = list(perm)
    res = _umeyama(x[:, p], y[:, p], with_scale)
    coord = max(1.0, np.abs(x).max(), np.abs(y).max())
    if res[0] != "ok":
        msgs.append("permuted copy of a determined case was refused")
    else:
        _, r3, t3, c3 = res
        tr_, tc_, tt_ = cond_tols(x, y, c)
        if np.abs(r3 - r).max() > 2 * tr_ or abs(c3 - c) > 2 * tc_ * c \
                or np.abs(t3 - t).max() > 2 * tt_:
            msgs.append("result depends on the order of the points")
    return msgs


# ------------------------------------------------------------------- cases
def build_case(case):
    """case dict -> (x, y, with_scale, gen, must_refuse, may_refuse)"""
    x = np.array(case["x"], dtype=float).T
    kind = case["kind"]
    ws = case["with_scale"]
    gen = None
    if kind in ("exact", "mirror", "noise"):
        R = ROT24[case["rot"]]
        c0, t0 = SCALE_T[case["st"]]
        y = c0 * (R @ x) + t0.reshape(3, 1)
        if kind == "exact":
            gen = (R, t0, c0)
        elif kind == "mirror":
            y = c0 * (R @ (MIRROR @ x)) + t0.reshape(3, 1)
        else:
            k, ax = case["noise"]
            y = y.copy()
            y[ax, k] += c0
    else:
        y = np.array(case["y"], dtype=float).T
    return x, y, ws, gen, case.get("must_refuse", False), case.get(
        "may_refuse", False)


def run_case(case, acc=None):
    x, y, ws, gen, must, may = build_case(case)
    msgs, info = judge(x, y, ws, gen, must, may)
    if acc is not None:
        acc.count("evaluations")
        acc.count("transitions")
        acc.outcome(info["outcome"] + ("/determined" if info["determined"]
                                       else "/undetermined"))
        if info.get("reflection_case") and info["outcome"] == "ok":
            acc.count("nontrivial")
            acc.count("reflection_branch")
        elif case["kind"] in ("noise", "other") and info["outcome"] == "ok":
            acc.count("nontrivial")
    if not msgs and info["outcome"] == "ok" and info["determined"] \
            and case.get("equiv") is not None:
        gi, hi, perm = case["equiv"]
        msgs = equivariance(x, y, ws, info["result"], gi, hi, perm)
        if acc is not None:
            acc.count("transitions", 2)
            acc.count("equivariance_checks")
        if not msgs:
            msgs = representations(x, y, ws, info["result"], acc)
    return msgs


def representations(x, y, ws, base, acc=None):
    """the same point sets handed over in other array representations
    (integer dtype / float32 where the values are exactly representable, a
    non-contiguous view, read-only arrays) give the same transformation"""
    r, t, c = base
    tr_, tc_, tt_ = cond_tols(x, y, c)
    variants = []
    if np.array_equal(np.round(x), x) and np.abs(x).max() < 2**31:
        variants.append(("x as int64", x.astype(np.int64), y))
    if np.array_equal(np.round(y), y) and np.abs(y).max() < 2**31:
        variants.append(("y as int64", x, y.astype(np.int64)))
    if np.array_equal(x.astype(np.float32).astype(float), x) and \
            np.array_equal(y.astype(np.float32).astype(float), y):
        variants.append(("float32", x.astype(np.float32),
                         y.astype(np.float32)))
    big = np.zeros((3, 2 * x.shape[1]))
    big[:, ::2] = x
    variants.append(("x as a strided view", big[:, ::2], np.asfortranarray(y)))
    xr, yr = x.copy(), y.copy()
    xr.setflags(write=False)
    yr.setflags(write=False)
    variants.append(("read-only arrays", xr, yr))
    msgs = []
    for name, xv, yv in variants:
        res = _umeyama(xv, yv, ws)
        if acc is not None:
            acc.count("transitions")
            acc.count("representation_checks")
        if res[0] != "ok":
            msgs.append("%s: %s (%s)" % (name, res[0], res[1]))
            continue
        f32 = 1e-6 if name == "float32" else 0.0
        _, r2, t2, c2 = res
        if np.abs(r2 - r).max() > 2 * tr_ + f32 or abs(c2 - c) > (
                2 * tc_ + f32) * c or np.abs(t2 - t).max() > 2 * tt_ + \
                f32 * max(1.0, np.abs(y).max()):
            msgs.append("%s: result differs from the float64 result "
                        "(dR=%.3g dc=%.3g dt=%.3g)" %
                        (name, np.abs(r2 - r).max(), abs(c2 - c),
                         np.abs(t2 - t).max()))
    return msgs


def _cls(case, msgs):
    m = " ".join(msgs)
    if "degenerate input was aligned" in m:
        return {"kind": "degenerate-not-refused"}
    return {"kind": case["kind"]}


def shard_sets(arg):
    idxs, pts_name, k, variants, thorough = arg
    pts = GRID3 if pts_name == "grid3" else CUBE
    combos = list(itertools.combinations(range(len(pts)), k))
    acc = Acc()
    for ci in idxs:
        comb = combos[ci]
        xs = [pts[i].tolist() for i in comb]
        nxt = combos[(ci * 7 + 1) % len(combos)]
        ys_other = [pts[i].tolist() for i in nxt]
        perm = list(range(k))
        perm = perm[1:] + perm[:1] if ci % 2 else perm[::-1]
        for ws in (False, True):
            cases = []
            if thorough:
                ex = [(r, s) for r in range(24) for s in range(len(SCALE_T))]
            else:
                ex = [(r, (r + ci) % len(SCALE_T))
                      for r in range(0, 24, 24 // variants)]
            for n, (r, s) in enumerate(ex):
                cases.append({"kind": "exact", "rot": r, "st": s,
                              "equiv": (r + ci, r + 2 * ci + 5, perm)
                              if n % 4 == 0 else None})
            for r, s in ((ci % 24, 0), ((ci + 7) % 24, 1 + ci % 4)):
                cases.append({"kind": "mirror", "rot": r, "st": s,
                              "equiv": (r + 3, ci, perm)})
            for j in range(3 if thorough or k == 3 else 1):
                cases.append({"kind": "noise", "rot": (ci + 5 * j) % 24,
                              "st": (ci + j) % 3,
                              "noise": ((ci + j) % k, j % 3),
                              "equiv": (ci, j, perm) if j == 0 else None})
            cases.append({"kind": "other", "y": ys_other, "equiv": None})
            for c in cases:
                c["x"] = xs
                c["with_scale"] = ws
                msgs = run_case(c, acc)
                if msgs:
                    acc.violation("grid", "; ".join(msgs[:2]), c,
                                  _cls(c, msgs))
                elif acc.counters["evaluations"] % 50021 == 1:
                    acc.sample(c)
    return acc


AXVALS = (-2.0, -1.0, 0.0, 1.0, 3.0)
OFFS = [np.zeros(3), np.array([1000.0, 2000.0, 0.0]),
        np.array([5e5 + .25, 5.4e6 + .5, 100.0])]


def shard_degenerate(arg):
    """x and/or y exactly degenerate: coincident, or on one coordinate axis"""
    ns = arg
    acc = Acc()
    for n in ns:
        for vals in itertools.product(AXVALS, repeat=n):
            generics = [[GRID3[(5 * i + 3 * k + 1) % 27] * 1.0 +
                         np.array([0.0, 0.5 * i, 0.25 * i * i])
                         for i in range(n)] for k in range(6)]
            generic = generics[0]
            for axis in range(3):
                line = []
                for v in vals:
                    p = np.zeros(3)
                    p[axis] = v
                    line.append(p)
                other_axis = []
                for v in vals:
                    p = np.zeros(3)
                    p[(axis + 1) % 3] = 2 * v + 1
                    other_axis.append(p)
                coincident = [np.array([1.0, -2.0, 0.5])] * n
                # coincident up to rounding noise (a few ulp): a refusal is
                # allowed; an answer must still be proper and optimal
                noisy = [np.array([1.0, 1.0, 3.0]) +
                         np.array([i, -i, 2 * i]) * 2.2e-16 * ((-1)**i)
                         for i in range(n)]
                variants = [("x-axis/y-generic%d" % k, line, g)
                            for k, g in enumerate(generics)]
                variants += [("x-generic%d/y-axis" % k, g, line)
                             for k, g in enumerate(generics)]
                variants += [
                    ("both-axis", line, other_axis),
                    ("x-coincident", coincident, generic),
                    ("y-coincident", generic, coincident),
                    ("x-noise-coincident", noisy, generic),
                ]
                for name, xs, ys in variants:
                    for oi, off in enumerate(OFFS):
                        for ws in (False, True):
                            # a common offset keeps the set exactly collinear
                            # but no longer "on a coordinate axis": then a
                            # refusal is allowed, not required
                            xo = [(p + off).tolist() for p in xs] \
                                if "x-" in name[:3] or name == "both-axis" \
                                else [p.tolist() for p in xs]
                            case = {
                                "kind": "degenerate", "variant": name,
                                "x": xo, "y": [np.asarray(p).tolist()
                                               for p in ys],
                                "with_scale": ws,
                                "must_refuse": oi == 0 and "noise" not in name,
                                "may_refuse": True, "equiv": None
                            }
                            msgs = run_case(case, acc)
                            acc.count("degenerate_inputs")
                            if msgs:
                                acc.violation("degenerate", "; ".join(msgs[:2]),
                                              case, _cls(case, msgs))
                            elif acc.counters["evaluations"] % 20011 == 1:
                                acc.sample(case)
    return acc


def shard_structured(arg):
    which, thorough = arg
    acc = Acc()
    rng_pts = {}
    rng_pts["lattice5"] = [[a, b, c] for a in range(5) for b in range(5)
                           for c in range(5)]
    rng_pts["planar10"] = [[a, b, 0.0] for a in range(10) for b in range(10)]
    rng_pts["nearline"] = [[i, 1e-6 * ((i * 7) % 5 - 2),
                            1e-6 * ((i * 3) % 7 - 3)] for i in range(40)]
    rng_pts["helix2000"] = [[np.cos(0.01 * i) * (1 + i / 500.), np.sin(
        0.01 * i) * (1 + i / 500.), 0.002 * i] for i in range(2000)]
    # sizes around and beyond 1024 / 2048 (chunked or blocked computations),
    # one of them with a long stand-still at the end
    for big in (1025, 1500, 2049):
        rng_pts["helix%d" % big] = rng_pts["helix2000"][:big] if big <= 2000 \
            else rng_pts["helix2000"] + [[3.0 + 0.001 * i, 0.5, 4.0]
                                         for i in range(big - 2000)]
    rng_pts["helix1700still"] = rng_pts["helix2000"][:600] + [
        rng_pts["helix2000"][600]] * 1100
    xs = rng_pts[which]
    n = len(xs)
    for ws in (False, True):
        for r in range(0, 24, 1 if n < 1000 else (6 if thorough else 12)):
            for s in range(len(SCALE_T)):
                for kind in ("exact", "mirror", "noise"):
                    c = {"kind": kind, "rot": r, "st": s, "x": xs,
                         "with_scale": ws, "noise": ((r * 7) % n, r % 3),
                         "equiv": (r, s + 3, list(range(n))[::-1])
                         if s == 0 else None,
                         # the nearly collinear line is ill-conditioned: a
                         # refusal is acceptable, a wrong result is not
                         "may_refuse": which == "nearline"}
                    msgs = run_case(c, acc)
                    if msgs:
                        small = dict(c)
                        acc.violation("structured", "; ".join(msgs[:2]), small,
                                      _cls(c, msgs))
    # shape mismatch must be refused (either set the longer one)
    x = np.array(xs, dtype=float).T
    for ws in (False, True):
        for a, b, lab in ((x, x[:, :-1], "second shorter"),
                          (x[:, :-1], x, "second longer")):
            res = _umeyama(a, b, ws)
            acc.count("evaluations")
            acc.count("transitions")
            if res[0] != "refused":
                acc.violation("structured", "sets of unequal size (%s) not "
                              "refused: %s" % (lab, res[0]),
                              {"kind": "shape", "x": xs, "with_scale": ws,
                               "which": which, "longer": lab},
                              {"kind": "shape"})
    return acc


def run(ctx):
    thorough = ctx.thorough
    n3 = len(list(itertools.combinations(range(27), 3)))
    n4 = len(list(itertools.combinations(range(27), 4)))
    n5 = len(list(itertools.combinations(range(8), 5)))
    jobs = []
    for s in shard(range(n3), 32):
        jobs.append((s, "grid3", 3, 24 if thorough else 8, thorough))
    for s in shard(range(n4), 64):
        jobs.append((s, "grid3", 4, 24 if thorough else 2, thorough))
    for s in shard(range(n5), 4):
        jobs.append((s, "cube", 5, 24, thorough))
    acc = pmap_acc(ctx, __name__, "shard_sets", jobs)
    acc.merge(pmap_acc(ctx, __name__, "shard_degenerate",
                       [[1], [2], [3]] + ([[4]] if True else [])))
    structs = ["lattice5", "planar10", "nearline", "helix1025", "helix1500",
               "helix1700still"] + (["helix2000", "helix2049"]
                                    if thorough else [])
    acc.merge(pmap_acc(ctx, __name__, "shard_structured",
                       [(w, thorough) for w in structs]))
    acc.counters["states"] = acc.counters["evaluations"]
    acc.rule = (
        "x = every 3- and 4-point subset of {-1,0,1}^3 (2925 + 17550), every "
        "5-subset of {0,1}^3, structured sets (5^3 lattice, 10x10 planar, "
        "nearly collinear, helices of 1025 / 1500 / 1700 (long stand-still) "
        "points%s); y = g(x) for g in Rot24 x {scale,translation} "
        "alphabet, mirror images, one-point noise, unrelated set; with and "
        "without scale; + all on-axis / coincident tuples over %s^n, n<=4. "
        "non-trivial = optimal orthogonal map is a reflection (S-branch "
        "taken) or noisy/unrelated data" %
        (", 2000 / 2049 points" if thorough else "", list(AXVALS)))
    acc.bounds = {"points_per_set": "3,4,5 exhaustive; 40..2000 structured",
                  "exact_variants_per_set_3pt": 24 if thorough else 8}
    acc.assumptions = [
        "oracle: Horn's quaternion absolute orientation (numpy eigh), which "
        "parametrises proper rotations only; SSE compared in centred form",
        "reproduction / equivariance only demanded when Horn's top "
        "eigenvalue gap exceeds 1e-3 of the eigenvalue (rotation determined "
        "and well conditioned)"
    ]
    return acc


def replay(part, case):
    if case.get("kind") == "shape":
        x = np.array(case["x"], dtype=float).T
        a, b = (x, x[:, :-1]) if case.get("longer") != "second longer" \
            else (x[:, :-1], x)
        res = _umeyama(a, b, case["with_scale"])
        return [] if res[0] == "refused" else ["unequal sizes not refused"]
    return run_case(case)
