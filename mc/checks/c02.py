"""
C02 - RPE values equal the definition over exactly the selected pose pairs.

E1: estimate = every step sequence over an 8-motion alphabet, reference from
fixed sequences with zero-length steps, x delta unit x delta x all_pairs x
pairs_from_reference x 7 relations on the real metrics.RPE; drift
independence; E4: evo_rpe lattice against the reference pipeline.
"""
import itertools
import json
import math
import os
import tempfile

import numpy as np

from mc import common
from mc.checks import ape_rpe_common as arc
from mc.checks import c01
from mc.engine import cli, lattice
from mc.engine.core import Acc, pmap_acc, shard
from mc.refmodel import geom
from mc.refmodel import pipeline as pl

RELS = ["full_transformation", "translation_part", "rotation_part",
        "rotation_angle_rad", "rotation_angle_deg", "point_distance",
        "point_distance_error_ratio"]
_Rz = geom.rodrigues((0, 0, 1), math.pi / 2)
MOTIONS = [(np.array(t, dtype=float), R)
           for t in ((0, 0, 0), (1, 0, 0), (2, 0, 0), (0, 1, 0))
           for R in (np.eye(3), _Rz)]
REF_SEQS = [(1, 1, 1, 1), (1, 0, 2, 4), (0, 0, 2, 2), (2, 3, 0, 1),
            (4, 4, 4, 4), (3, 1, 0, 0), (6, 2, 5, 1), (0, 2, 0, 2)]
DELTAS = [("f", 1), ("f", 2), ("m", 1.0), ("m", 2.5), ("r", 1.0), ("r", 2.0),
          ("d", 80.0), ("d", 170.0),
          # quarter turns exactly: the reference that keeps turning the same
          # way passes 180 and 360 degrees of absolute heading (where
          # quaternion signs flip) while every step is a 90-degree pair
          ("d", 90.0), ("r", math.pi / 2)]


def chain(seq, start=None):
    P = [np.eye(4) if start is None else start]
    for m in seq:
        t, R = MOTIONS[m]
        P.append(P[-1] @ geom.pose(R, t))
    return P


def select(poses, delta, unit, rel_tol, all_pairs):
    """evo's own selector (decided by C10) applied to the trajectory that
    the property names"""
    from evo.core import metrics, filters
    from evo.core.units import Unit
    u = {"f": Unit.frames, "m": Unit.meters, "r": Unit.radians,
         "d": Unit.degrees}[unit]
    try:
        with common.quiet():
            return [(int(i), int(j)) for i, j in metrics.id_pairs_from_delta(
                poses, delta, u, rel_tol, all_pairs)]
    except filters.FilterException:
        return None


def run_rpe(ref, est, rel, delta, unit, allp, from_ref, rel_tol=0.1):
    from evo.core import metrics, filters
    from evo.core.units import Unit
    u = {"f": Unit.frames, "m": Unit.meters, "r": Unit.radians,
         "d": Unit.degrees}[unit]
    m = metrics.RPE(metrics.PoseRelation[rel], delta, u, rel_tol, allp,
                    from_ref)
    try:
        with common.quiet():
            m.process_data((ref, est))
    except filters.FilterException:
        return None
    return m


def judge(Pr, Pe, rel, delta, unit, allp, from_ref, mode):
    n = len(Pr)
    ref = common.make_traj([P[:3, :3] for P in Pr], [P[:3, 3] for P in Pr],
                           None, mode)
    est = common.make_traj([P[:3, :3] for P in Pe], [P[:3, 3] for P in Pe],
                           None, mode)
    pairs = select(Pr if from_ref else Pe, delta, unit, 0.1, allp)
    # the pairs themselves must realise the delta (C10's predicate oracle,
    # independent of evo's selector)
    from mc.checks import c10
    pm, _ = c10.judge_pairs(Pr if from_ref else Pe, delta, unit, 0.1, allp,
                            pairs or [])
    if pm:
        return ["selected pairs do not realise the requested delta: " +
                pm[0]], "pairs"
    m = run_rpe(ref, est, rel, delta, unit, allp, from_ref)
    if pairs is None:
        if m is not None:
            return ["values returned although no pair realises the delta on "
                    "the %s trajectory" % ("reference" if from_ref
                                           else "estimate")], "empty"
        return [], "empty"
    if m is None:
        return ["filter error although pairs exist on the %s trajectory" %
                ("reference" if from_ref else "estimate")], "pairs"
    exp, ends = [], []
    for i, j in pairs:
        v = arc.rpe_value(rel, Pr[i], Pr[j], Pe[i], Pe[j])
        if v is None:
            continue
        exp.append(v)
        ends.append(j)
    err = np.array(m.error, dtype=float)
    ids = [int(i) for i in m.delta_ids]
    msgs = []
    if len(ids) != len(err):
        msgs.append("%d pair end indices for %d values" % (len(ids),
                                                           len(err)))
    if len(err) != len(exp):
        msgs.append("%d values for %d selected pairs" % (len(err), len(exp)))
        return msgs, "pairs"
    if ids != ends:
        msgs.append("pair end indices %s, expected %s" % (ids, ends))
    tol = {"rotation_angle_deg": 1e-7}.get(rel, 1e-9)
    if len(exp) and np.abs(err - np.array(exp)).max() > tol:
        k = int(np.argmax(np.abs(err - np.array(exp))))
        msgs.append("value %d (pair %s) = %.12g, definition gives %.12g" %
                    (k, pairs[k] if k < len(pairs) else "?", err[k], exp[k]))
    # the same metric object used again (e.g. in a loop over estimates)
    # must give the same answer: nothing may accumulate across calls
    if not msgs and not allp and not from_ref:
        with common.quiet():
            m.process_data((ref, est))
        again = np.array(m.error, dtype=float)
        if again.shape != err.shape or (err.size and
                                        np.abs(again - err).max() > tol) \
                or [int(i) for i in m.delta_ids] != ids:
            msgs.append("second process_data() on the same metric object "
                        "gives %d values / ids %s, the first gave %d / %s" %
                        (again.size, list(m.delta_ids)[:6], err.size,
                         ids[:6]))
    return msgs, "pairs" if len(exp) == len(pairs) else "pairs-skipped-zero"


def shard_core(arg):
    seqs, thorough = arg
    acc = Acc()
    T1 = geom.pose(geom.rodrigues((1, 2, 3), 1.1), [10.0, -5.0, 2.0])
    T2 = geom.pose(geom.rodrigues((0, 1, -1), 2.3), [-3.0, 7.0, 1.5])
    for seq in seqs:
        Pe = chain(seq)
        for ri, rseq in enumerate(REF_SEQS):
            if len(rseq) < len(seq):
                continue
            if (not thorough or len(seq) >= 4) and (ri + sum(seq)) % 2:
                continue
            Pr = chain(rseq[:len(seq)])
            mode = ("se3", "quat")[(ri + len(seq)) % 2]
            for unit, delta in DELTAS:
                for allp in (False, True):
                    if not allp and (unit, delta) in DELTAS[-2:]:
                        # consecutive pairs accumulate the angle until it
                        # reaches delta: a delta that is hit exactly is a
                        # knife-edge; all-pairs mode has a tolerance band
                        continue
                    for from_ref in (False, True):
                        for rel in RELS:
                            msgs, outcome = judge(Pr, Pe, rel, delta, unit,
                                                  allp, from_ref, mode)
                            acc.count("evaluations")
                            acc.count("transitions")
                            acc.outcome(outcome)
                            if outcome != "empty":
                                acc.count("nontrivial")
                            case = {"seq": list(seq), "ref": ri, "rel": rel,
                                    "unit": unit, "delta": delta,
                                    "all_pairs": allp, "from_ref": from_ref,
                                    "mode": mode}
                            if msgs:
                                acc.violation("core", "%s: %s" %
                                              (case, "; ".join(msgs[:2])),
                                              case, {"kind": "value",
                                                     "rel": rel})
                            elif acc.counters["evaluations"] % 30011 == 1:
                                acc.sample(case)
            # drift independence and zero for identical relative motions
            # (frame deltas and off-grid thresholds: selection cannot flip)
            if len(seq) >= 2:
                for rel in RELS[:6]:
                    for unit, delta in (("f", 1), ("f", 2), ("m", 1.5)):
                        a = _vals(Pr, Pe, rel, delta, unit)
                        b = _vals([T1 @ P for P in Pr], [T2 @ P for P in Pe],
                                  rel, delta, unit)
                        z = _vals(Pe, [T2 @ P for P in Pe], rel, delta, unit)
                        acc.count("evaluations")
                        acc.count("transitions", 3)
                        case = {"seq": list(seq), "ref": ri, "rel": rel,
                                "unit": unit, "delta": delta, "drift": True}
                        tol = 1e-7 if rel.endswith("deg") else 1e-9
                        if (a is None) != (b is None) or (
                                a is not None and (a.shape != b.shape or (
                                    a.size and np.abs(a - b).max() > tol))):
                            acc.violation("drift", "%s: values change when "
                                          "reference and estimate are moved "
                                          "by different rigid motions" % case,
                                          case, {"kind": "drift"})
                        if z is not None and z.size and np.abs(z).max() > tol:
                            acc.violation("drift", "%s: values not zero for "
                                          "identical relative motions" % case,
                                          case, {"kind": "zero"})
    return acc


def _vals(Pr, Pe, rel, delta, unit):
    ref = common.make_traj([P[:3, :3] for P in Pr], [P[:3, 3] for P in Pr],
                           None, "se3")
    est = common.make_traj([P[:3, :3] for P in Pe], [P[:3, 3] for P in Pe],
                           None, "se3")
    m = run_rpe(ref, est, rel, delta, unit, False, False)
    return None if m is None else np.array(m.error, dtype=float)


def unequal_part():
    from evo.core import metrics
    acc = Acc()
    Pr = chain((1, 3, 1, 2))
    Pe = chain((1, 3, 1))
    for a, b in ((Pr, Pe), (Pe, Pr)):
        ref = common.make_traj([P[:3, :3] for P in a], [P[:3, 3] for P in a],
                               None, "se3")
        est = common.make_traj([P[:3, :3] for P in b], [P[:3, 3] for P in b],
                               None, "se3")
        for rel in RELS:
            acc.count("evaluations")
            acc.count("transitions")
            try:
                run_rpe(ref, est, rel, 1, "f", False, False)
                acc.violation("core", "unequal lengths not refused (%s)" % rel,
                              {"unequal": True, "rel": rel},
                              {"kind": "unequal"})
            except metrics.MetricsException:
                pass
    return acc


# ------------------------------------------------------------------ evo_rpe
DIMS = [
    ("relation", ["full", "trans_part", "rot_part", "angle_deg", "angle_rad",
                  "point_distance", "point_distance_error_ratio"]),
    ("delta", [("f", 1), ("f", 2), ("m", 1.5), ("d", 37.0), ("r", 0.5)]),
    ("all_pairs", [False, True]),
    ("from_ref", [False, True]),
    ("align", ["none", "a", "s", "as", "origin", "s+origin"]),
    ("n_to_align", [-1, 4, 6]),
    ("downsample", [None, 5]),
    ("motion_filter", [None, (0.5, 30.0), (100.0, 40.0), (2.5, 170.0)]),
    ("t_max_diff", [0.01, 0.3]),
    ("t_offset", [0.0, 0.125, 1.0, -0.26]),
    ("crop", [None, (1.5, 4.0), (2.0, None), (None, 3.0)]),
    ("project", [None, "xy", "xz", "yz"]),
    ("unit", [None, "compatible", "incompatible"]),
    ("fmt", ["tum", "kitti", "euroc"]),
    ("epoch", [0.0, 1.5e9]),
]


def predict(pt):
    rel = arc.REL_CLI[pt["relation"]]
    ref, est = arc.processed_pair(pt)
    Pr, Pe = ref.poses(), est.poses()
    unit_d, delta = pt["delta"]
    src = Pr if pt["from_ref"] else Pe
    pairs = select(src, delta, unit_d, 0.1, pt["all_pairs"])
    if unit_d != "f":
        # knife-edge guard: the model's poses and evo's internally processed
        # poses differ by rounding; if the selection flips under a relative
        # change of 1e-9 of delta, the property leaves the choice open
        lo = select(src, delta * (1 - 1e-9), unit_d, 0.1, pt["all_pairs"])
        hi = select(src, delta * (1 + 1e-9), unit_d, 0.1, pt["all_pairs"])
        if lo != pairs or hi != pairs:
            raise pl.Ambiguous("pair selection on a knife-edge")
    # the selection itself is judged by C10's predicate oracle on the model's
    # poses (complete and sound within the tolerance band)
    from mc.checks import c10
    pm, exists = c10.judge_pairs(src, delta, unit_d, 0.1, pt["all_pairs"],
                                 pairs or [])
    if pairs is None and exists:
        pm = pm + ["no pairs selected although one exists"]
    if pm:
        raise pl.AssociationViolation("pair selection: " + "; ".join(pm[:2]))
    if pairs is None:
        raise pl.Refusal("no-pairs")
    vals, ends = [], []
    for i, j in pairs:
        v = arc.rpe_value(rel, Pr[i], Pr[j], Pe[i], Pe[j])
        if v is None:
            continue
        vals.append(v)
        ends.append(j)
    unit = arc.unit_choice(rel, pt["unit"])
    if unit is not None:
        f = arc.unit_factor(arc.BASE_UNIT.get(rel, "unit-less"), unit)
        if f is None:
            raise pl.Refusal("incompatible-unit")
        vals = [v * f for v in vals]
    stamps = None if est.stamps is None else [est.stamps[j] for j in ends]
    return np.array(vals), stamps


def run_point(pt):
    from evo.tools import file_interface
    pt = c01.normalise(pt)
    rel = arc.REL_CLI[pt["relation"]]
    argv = arc.common_argv(pt)
    argv += ["-d", str(pt["delta"][1]), "-u", pt["delta"][0]]
    if pt["all_pairs"]:
        argv.append("--all_pairs")
    if pt["from_ref"]:
        argv.append("--pairs_from_reference")
    unit = arc.unit_choice(rel, pt["unit"])
    if unit is not None:
        argv += ["--change_unit", unit]
    out = "rpe_out.zip"
    if os.path.exists(out):
        os.remove(out)
    argv += ["--save_results", out, "--no_warnings", "--silent"]
    try:
        exp, stamps = predict(pt)
        refusal = None
    except pl.Refusal as r:
        exp, refusal = None, r
    except pl.Ambiguous:
        return [], "ambiguous"
    except pl.AssociationViolation as v:
        return ["processing of the input files: %s" % v], "values"
    res = cli.run_cli("rpe", argv)
    if refusal is not None:
        if res.exc is not None and not cli.is_evo_refusal(res):
            return ["evo_rpe crashed with %s: %s (expected refusal: %s)" %
                    (type(res.exc).__name__, res.exc, refusal.kind)], \
                "refused"
        if res.ok and not refusal.allowed_only:
            return ["evo_rpe succeeded although the request must be refused "
                    "(%s)" % refusal.kind], "refused"
        return [], "refused:" + refusal.kind
    if not res.ok:
        return ["evo_rpe failed (%s: %s) for a valid request" %
                (res.outcome(), res.exc)], "failed"
    r = file_interface.load_res_file(out)
    if "error_array" not in r.np_arrays:
        return ["the saved result holds no error values (arrays: %s)" %
                sorted(r.np_arrays)], "values"
    err = np.array(r.np_arrays["error_array"], dtype=float)
    if err.shape != exp.shape:
        return ["stored %d values, %d pairs are selected on the processed "
                "trajectories" % (err.size, exp.size)], "values"
    msgs = []
    tol = c01.tol_for(rel, 1e5 if pt.get("geometry") == "f" else 10) * (
        1000.0 if unit == "mm" else 1.0)
    if err.size and np.abs(err - exp).max() > tol:
        k = int(np.argmax(np.abs(err - exp)))
        msgs.append("stored value %d = %.12g, reference pipeline gives %.12g"
                    % (k, err[k], exp[k]))
    if stamps is not None:
        ts = r.np_arrays.get("timestamps")
        if ts is None or len(ts) != len(stamps) or not np.array_equal(
                np.array(ts), np.array(stamps)):
            msgs.append("stored timestamps are not those of the pair end "
                        "poses")
    return msgs, "values"


def shard_points(pts):
    wd = tempfile.mkdtemp(dir=os.getcwd(), prefix="c02_")
    old = os.getcwd()
    os.chdir(wd)
    acc = Acc()
    try:
        arc.write_fixture(wd)
        for pt in pts:
            msgs, outcome = run_point(pt)
            acc.count("evaluations")
            acc.count("transitions")
            acc.outcome("evo_rpe:" + outcome)
            if outcome == "values":
                acc.count("nontrivial")
            if msgs:
                acc.violation("evo_rpe", "evo_rpe %s: %s" %
                              (c01.normalise(pt), "; ".join(msgs[:2])), pt,
                              {"kind": "wiring"})
            elif acc.counters["evaluations"] % 1999 == 1:
                acc.sample({"point": c01.normalise(pt), "outcome": outcome})
    finally:
        os.chdir(old)
    return acc


def lattice_points(ctx):
    pts = lattice.pairwise(DIMS, seed=ctx.seed)
    if ctx.thorough:
        sub = [d for d in DIMS]
        # the full 14-dimensional product (4.8 M) is out of reach: full
        # product of the RPE-specific dimensions x alignment x format, and of
        # the processing dimensions with fixed RPE options
        a = [("relation", DIMS[0][1]), ("delta", DIMS[1][1]),
             ("all_pairs", [False, True]), ("from_ref", [False, True]),
             ("align", DIMS[4][1]), ("n_to_align", [-1, 4, 6]),
             ("project", [None, "xy", "xz", "yz"]),
             ("unit", [None, "compatible"]), ("fmt", DIMS[13][1])]
        base = {"downsample": None, "motion_filter": None, "t_max_diff": 0.01,
                "t_offset": 0.0, "crop": None}
        for p in lattice.product(a):
            pts.append(dict(base, **p))
        b = [("relation", ["full", "point_distance_error_ratio"]),
             ("delta", [("f", 1), ("m", 1.5)]), ("all_pairs", [False, True]),
             ("from_ref", [False, True]), ("align", ["none", "as"]),
             ("downsample", [None, 5]),
             ("motion_filter", [None, (0.5, 30.0), (2.5, 170.0)]),
             ("t_max_diff", [0.01, 0.3]), ("t_offset", [0.0, 0.125, 1.0, -0.26]),
             ("crop", [None, (1.5, 4.0), (2.0, None), (None, 3.0)]), ("project", [None, "xz"]),
             ("unit", [None, "incompatible"]), ("fmt", ["tum", "euroc"])]
        for p in lattice.product(b):
            pts.append(dict({"n_to_align": -1}, **p))
    else:
        a = [("relation", DIMS[0][1]), ("delta", DIMS[1][1]),
             ("all_pairs", [False, True]), ("from_ref", [False, True]),
             ("align", ["none", "as", "s+origin"]), ("project", [None, "xz"]),
             ("downsample", [None, 5]), ("crop", [None, (1.5, 4.0)]),
             ("fmt", ["tum"])]
        base = {"n_to_align": -1, "motion_filter": None, "t_max_diff": 0.01,
                "t_offset": 0.0, "unit": None}
        for p in lattice.product(a):
            pts.append(dict(base, **p))
        # one-sided time ranges and a negative offset
        d = [("crop", [None, (2.0, None), (None, 3.0), (1.5, 4.0)]),
             ("t_offset", [0.0, -0.26, 0.125, 1.0]),
             ("t_max_diff", [0.01, 0.3]),
             ("relation", ["full", "trans_part"]),
             ("delta", [("f", 1), ("m", 1.5)]), ("all_pairs", [False, True]),
             ("align", ["none", "as"])]
        base = {"from_ref": False, "n_to_align": -1, "downsample": None,
                "motion_filter": None, "project": None, "unit": None,
                "fmt": "tum"}
        for p in lattice.product(d):
            pts.append(dict(base, **p))
        c = [("relation", DIMS[0][1]), ("delta", DIMS[1][1]),
             ("all_pairs", [False, True]), ("align", DIMS[4][1]),
             ("n_to_align", [-1, 4, 6]), ("fmt", ["tum", "kitti"])]
        base = {"from_ref": False, "downsample": None, "motion_filter": None,
                "t_max_diff": 0.01, "t_offset": 0.0, "crop": None,
                "project": None, "unit": None}
        for p in lattice.product(c):
            pts.append(dict(base, **p))
    # geometry variants of the estimate: mirrored copy, both far from the
    # origin, the reference file given twice
    g = [("geometry", ["m", "f", "same", "b", "nonl", "crlf"]), ("relation", DIMS[0][1]),
         ("delta", [("f", 1), ("m", 1.5), ("d", 37.0)]),
         ("all_pairs", [False, True]), ("align", ["none", "as", "origin"]),
         ("project", [None, "xy"])]
    base = {"from_ref": False, "n_to_align": -1, "downsample": None,
            "motion_filter": None, "t_max_diff": 0.01, "t_offset": 0.0,
            "crop": None, "unit": None, "fmt": "tum", "epoch": 0.0}
    for p in lattice.product(g):
        pts.append(dict(base, **p))
    seen, out = set(), []
    for p in pts:
        k = json.dumps(c01.normalise(p), sort_keys=True)
        if k not in seen:
            seen.add(k)
            out.append(p)
    return out


def large_case(case):
    """long chains (batched / chunked processing is invisible on 5 poses)"""
    n = case["n"]
    seq_e = [(3 * k + k // 7) % len(MOTIONS) for k in range(n - 1)]
    seq_r = [(5 * k + 1 + k // 11) % len(MOTIONS) for k in range(n - 1)]
    Pe, Pr = chain(seq_e), chain(seq_r)
    return judge(Pr, Pe, case["rel"], case["delta"], case["unit"],
                 case["all_pairs"], case["from_ref"], case["mode"])


def shard_large(cases):
    acc = Acc()
    for case in cases:
        msgs, outcome = large_case(case)
        acc.count("evaluations")
        acc.count("transitions")
        acc.count("nontrivial")
        acc.outcome("large:" + outcome)
        if msgs:
            acc.violation("large", "%s: %s" % (case, "; ".join(msgs[:2])),
                          case, {"kind": "large"})
    return acc


def run(ctx):
    maxlen = ctx.pick(3, 4)
    seqs = [s for k in range(1, maxlen + 1)
            for s in itertools.product(range(len(MOTIONS)), repeat=k)]
    acc = pmap_acc(ctx, __name__, "shard_core",
                   [(s, ctx.thorough) for s in shard(seqs, 64)])
    acc.merge(unequal_part())
    large = [{"n": n, "rel": rel, "unit": u, "delta": d, "all_pairs": ap,
              "from_ref": False, "mode": ("se3", "quat")[n % 2]}
             for n in ctx.pick((257, 300, 514), (257, 300, 514, 1025, 1300))
             for rel in RELS for (u, d, ap) in (("f", 1, False),
                                                ("f", 2, True),
                                                ("m", 3.0, False))]
    acc.merge(pmap_acc(ctx, __name__, "shard_large", shard(large, 16)))
    pts = lattice_points(ctx)
    acc.merge(pmap_acc(ctx, __name__, "shard_points",
                       shard(pts, ctx.jobs * 2)))
    acc.counters["states"] = acc.counters["evaluations"]
    acc.bounds = {"lattice_points": len(pts), "max_steps": maxlen}
    acc.rule = (
        "estimate = every sequence of <= %d steps over 8 motions (translation "
        "{0,1,2 along x, 1 along y} x rotation {id, 90 deg about z}), "
        "reference = %s fixed sequences with zero-length steps, x 8 + 2 (delta "
        "unit, delta) x all_pairs x pairs_from_reference x 7 relations x "
        "alternating storage mode: one value per selected pair in order, "
        "pair end indices, ratio skips zero reference distances "
        "consistently; drift independence under two different rigid motions "
        "and zero for identical relative motions; unequal lengths refused; "
        "chains of 257 / 300 / 514 poses (thorough: up to 1300) x relations x "
        "3 deltas; "
        "evo_rpe lattice (%d points) vs the reference pipeline. non-trivial = "
        "cases with at least one selected pair" %
        (maxlen, "8 (4 of 8 for 4 steps)" if ctx.thorough else "4 of 8 (alternating)", len(pts)))
    acc.assumptions = [
        "the expected pairs are evo's own id_pairs_from_delta (decided by "
        "C10) applied to the trajectory the property names (estimate, or "
        "reference with pairs_from_reference)",
    ]
    return acc


def replay(part, case):
    if part in ("core", "drift"):
        if case.get("unequal"):
            return [v["msg"] for v in unequal_part().violations]
        a = shard_core(([tuple(case["seq"])], True))
        return [v["msg"] for v in a.violations
                if all(v["case"].get(k) == case.get(k) for k in case)]
    if part == "large":
        return large_case(case)[0]
    if part == "evo_rpe":
        for k in ("motion_filter", "crop", "delta"):
            if case.get(k):
                case[k] = tuple(case[k])
        wd = tempfile.mkdtemp(dir=os.getcwd(), prefix="c02r_")
        old = os.getcwd()
        os.chdir(wd)
        try:
            arc.write_fixture(wd)
            return run_point(case)[0]
        finally:
            os.chdir(old)
    return []
