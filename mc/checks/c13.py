"""
C13 - merging and tabulating results.

E1: all lists of 1..3 results over an alphabet of result "types" (statistic
values, one or two arrays with lengths from a small set, key insertion order,
one missing/extra key), chains of 4 and 8 over a reduced alphabet, on the real
merge_results; evo_res --save_table over 1..3 result files x use_filenames x
merge, through the real parser and run().
"""
import copy
import csv
import itertools
import json
import os

import numpy as np

from mc import common
from mc.engine import cli
from mc.engine.core import Acc, pmap_acc, shard

# (a statistic may be exactly zero - min of a perfect first pose - and a
# generic result may hold negative values)
STAT_SETS = [(0.5, 1.0), (1.0, 3.0), (3.0, 0.5), (0.0, 0.0), (-3.0, 1.0)]


def result_types(lengths):
    """each type: dict(stats=(v_rmse, v_mean), arrays=[(key, len), ...] in
    insertion order, stat_keys=..., tag)"""
    types = []
    for si, st in enumerate(STAT_SETS):
        for la in lengths:
            types.append({"stats": st, "arrays": [("a", la)], "skeys":
                          ("rmse", "mean")})
            for lb in lengths:
                types.append({"stats": st, "arrays": [("a", la), ("b", lb)],
                              "skeys": ("rmse", "mean")})
                types.append({"stats": st, "arrays": [("b", lb), ("a", la)],
                              "skeys": ("mean", "rmse")})
    # key mismatches
    types.append({"stats": (1.0, 1.0), "arrays": [("a", 2)],
                  "skeys": ("rmse", )})
    types.append({"stats": (1.0, 1.0), "arrays": [("a", 2), ("c", 2)],
                  "skeys": ("rmse", "mean")})
    return types


def build(t, idx):
    from evo.core.result import Result
    r = Result()
    vals = dict(zip(("rmse", "mean"), t["stats"]))
    r.add_stats({k: vals[k] + 0.125 * idx for k in t["skeys"]})
    for key, n in t["arrays"]:
        r.add_np_array(key, (10.0 * (idx + 1) + np.arange(float(n)) +
                             (0.5 if key == "b" else 0.0)))
    r.add_info({"title": "t%d" % idx, "est_name": "est%d" % idx,
                "label": "L"})
    return r


def snap_result(r):
    return (repr(sorted(r.info.items())), repr(list(r.stats.items())),
            [(k, v.dtype.str, v.shape, v.tobytes())
             for k, v in r.np_arrays.items()])


def judge(types_list):
    """run merge_results on fresh Result objects; return msgs, outcome"""
    rs = [build(t, i) for i, t in enumerate(types_list)]
    skeys = [set(t["skeys"]) for t in types_list]
    akeys = [set(k for k, _ in t["arrays"]) for t in types_list]
    return judge_rs(rs, skeys, akeys)


REPRS = ("int-first", "int-later", "f32-first", "shared-first", "shared-all",
         "readonly", "list", "2d", "4x4")


def judge_repr(case):
    """results whose arrays come in other representations: integer or
    float32 dtype (exactly representable values), one array object stored
    under two keys, read-only arrays, plain lists"""
    n, L, rep = case["n"], case["len"], case["repr"]
    t = {"stats": (1.0, 2.0), "arrays": [("a", L), ("b", L)],
         "skeys": ("rmse", "mean")}
    rs = [build(t, i) for i in range(n)]
    for i, r in enumerate(rs):
        for k in ("a", "b"):
            a = np.round(r.np_arrays[k])        # integral values
            r.np_arrays[k] = a
            if (rep == "int-first" and i == 0) or (rep == "int-later"
                                                   and i == n - 1):
                r.np_arrays[k] = a.astype(np.int64)
            elif rep == "f32-first" and i == 0:
                r.np_arrays[k] = (a + 0.25).astype(np.float32)
            elif rep == "readonly":
                a.setflags(write=False)
            elif rep == "2d":
                r.np_arrays[k] = np.outer(a, [1.0, 2.0, 3.0, 4.0])
            elif rep == "4x4":
                # like the alignment matrix evo_ape / evo_rpe store
                r.np_arrays[k] = np.eye(4) * (i + 1.0) + np.arange(16.0).reshape(
                    4, 4) * (0.5 if k == "b" else 0.25)
            elif rep == "list" and i == 0:
                r.np_arrays[k] = a.tolist()
        if (rep == "shared-first" and i == 0) or rep == "shared-all":
            r.np_arrays["b"] = r.np_arrays["a"]
    if rep == "list":
        # (evo's Result holds arrays; a list is only what a caller may have
        # put there) - compare as arrays
        for r in rs:
            for k in ("a", "b"):
                r.np_arrays[k] = np.asarray(r.np_arrays[k], dtype=float)
    keys = [{"rmse", "mean"}] * n
    return judge_rs(rs, keys, [{"a", "b"}] * n)


def judge_rs(rs, skeys, akeys):
    from evo.core import result
    before = [snap_result(r) for r in rs]
    msgs = []
    mismatch = any(s != skeys[0] for s in skeys) or any(a != akeys[0]
                                                        for a in akeys)
    try:
        m = result.merge_results(rs)
        exc = None
    except result.ResultException as e:
        exc = e
    except Exception as e:  # any other exception type is not evo's refusal
        return ["merge_results raised %s: %s" % (type(e).__name__, e)], "crash"
    if [snap_result(r) for r in rs] != before:
        msgs.append("an input result was modified")
    if len(rs) == 1:
        if exc is not None or m is not rs[0]:
            msgs.append("a single result is not returned as is")
        return msgs, "single"
    if mismatch:
        if exc is None:
            msgs.append("results with different keys were merged")
        return msgs, "refused"
    if exc is not None:
        msgs.append("results with equal key sets were refused: %s" % exc)
        return msgs, "refused"
    n = len(rs)
    for k in skeys[0]:
        exp = sum(r.stats[k] for r in rs) / n
        if k not in m.stats or abs(m.stats[k] - exp) > 1e-12 * max(1, abs(exp)):
            msgs.append("statistic %s: %r != mean %r" %
                        (k, m.stats.get(k), exp))
    if set(m.stats) != skeys[0] or set(m.np_arrays) != akeys[0]:
        msgs.append("key set of the merged result differs")
        return msgs, "merged"
    equal_len = all(
        len({r.np_arrays[k].size for r in rs}) == 1 for k in akeys[0])
    for k in akeys[0]:
        same_k = len({r.np_arrays[k].size for r in rs}) == 1
        if equal_len:
            exp = sum(np.asarray(r.np_arrays[k], dtype=float)
                      for r in rs) / n
        else:
            exp = np.concatenate([r.np_arrays[k] for r in rs])
        got = np.asarray(m.np_arrays[k])
        if not equal_len and same_k:
            # this array has equal lengths but another one does not: the
            # statement can be read per array or for the result as a whole;
            # the element-wise mean is accepted as well
            alt = sum(r.np_arrays[k] for r in rs) / n
            if got.shape == alt.shape and (not alt.size or np.abs(
                    got - alt).max() <= 1e-9):
                continue
        if got.shape != exp.shape or (exp.size and
                                      np.abs(got - exp).max() > 1e-9):
            msgs.append("array %s: expected %s of the inputs %s, got %s" %
                        (k, "element-wise mean" if equal_len else
                         "concatenation", [r.np_arrays[k].tolist()
                                           for r in rs], got.tolist()))
        for r in rs:
            if got.size and np.shares_memory(got, r.np_arrays[k]):
                msgs.append("merged array %s aliases an input array" % k)
    if m.info != rs[0].info:
        msgs.append("info of the first result is not kept")
    if m is rs[0] or m.info is rs[0].info:
        msgs.append("merged result aliases the first input")
    return msgs, "average" if equal_len else "append"


def shard_lists(arg):
    lengths, firsts, maxlen = arg
    types = result_types(lengths)
    acc = Acc()
    for f in firsts:
        for n in range(1, maxlen + 1):
            for rest in itertools.product(range(len(types)), repeat=n - 1):
                idxs = (f, ) + rest
                tl = [types[i] for i in idxs]
                msgs, outcome = judge(tl)
                acc.count("evaluations")
                acc.count("transitions")
                acc.outcome(outcome)
                orders = {tuple(k for k, _ in t["arrays"]) for t in tl}
                if len(orders) > 1 or outcome == "append":
                    acc.count("nontrivial")
                if msgs:
                    cls = {"kind": "insertion-order"} if (
                        len(orders) > 1 and any("concatenation" not in m and
                                                "array" in m for m in msgs)
                    ) else {"kind": "other"}
                    acc.violation("merge", "; ".join(msgs[:2]),
                                  {"lengths": list(lengths),
                                   "types": list(idxs)}, cls)
                elif acc.counters["evaluations"] % 30011 == 1:
                    acc.sample({"types": [types[i] for i in idxs],
                                "outcome": outcome})
    return acc


def shard_chains(arg):
    n, firsts = arg
    lengths = (0, 2)
    types = [t for t in result_types(lengths)
             if t["stats"] == STAT_SETS[0] and len(t["skeys"]) == 2 and
             "c" not in [k for k, _ in t["arrays"]]]
    acc = Acc()
    for f in firsts:
        for rest in itertools.product(range(len(types)), repeat=n - 1):
            tl = [types[f]] + [types[i] for i in rest]
            msgs, outcome = judge(tl)
            acc.count("evaluations")
            acc.count("transitions")
            acc.outcome(outcome)
            if msgs:
                acc.violation("merge-chain", "; ".join(msgs[:2]),
                              {"chain": [f] + list(rest), "n": n},
                              {"kind": "chain"})
    return acc


def judge_identity(case):
    """lists in which one Result OBJECT occurs more than once (weighting a
    run twice): every list position counts"""
    t = {"stats": (1.0, 2.0), "arrays": [("a", case["len"]), ("b", 2)],
         "skeys": ("rmse", "mean")}
    objs = [build(t, i) for i in range(3)]
    rs = [objs[i] for i in case["pattern"]]
    keys = [{"rmse", "mean"}] * len(rs)
    return judge_rs(rs, keys, [{"a", "b"}] * len(rs))


def repr_part(ctx):
    acc = Acc()
    for L in (2, 3):
        for pattern in ([0, 1, 0], [0, 0], [1, 0, 0], [0, 0, 0], [0, 1, 1],
                        [0, 1, 2, 0]):
            case = {"len": L, "pattern": pattern}
            msgs, outcome = judge_identity(case)
            acc.count("evaluations")
            acc.count("transitions")
            acc.count("nontrivial")
            acc.outcome("identity:" + outcome)
            if msgs:
                acc.violation("merge-identity", "%s: %s" %
                              (case, "; ".join(msgs[:2])), case,
                              {"kind": "identity"})
    for n in (2, 3):
        for L in (1, 3):
            for rep in REPRS:
                case = {"n": n, "len": L, "repr": rep}
                msgs, outcome = judge_repr(case)
                acc.count("evaluations")
                acc.count("transitions")
                acc.count("nontrivial")
                acc.outcome("repr:" + outcome)
                if msgs:
                    acc.violation("merge-repr", "%s: %s" %
                                  (case, "; ".join(msgs[:2])), case,
                                  {"kind": "repr"})
    return acc


# ------------------------------------------------------------------ evo_res
def _make_result_files(workdir):
    """three result archives from real APE evaluations"""
    from evo import main_ape
    from evo.core import metrics
    from evo.tools import file_interface
    files = []
    for k in range(3):
        n = 4 + k
        Rs = [np.eye(3)] * n
        ps = [np.array([i, 0.5 * i * k, 0.0]) for i in range(n)]
        pe = [p + np.array([0.0, 0.25 * (i % 2) + 0.125 * k, 0.5])
              for i, p in enumerate(ps)]
        stamps = [0.5 * i for i in range(n)]
        ref = common.make_traj(Rs, ps, stamps, "quat")
        est = common.make_traj(Rs, pe, stamps, "quat")
        r = main_ape.ape(ref, est, metrics.PoseRelation.translation_part,
                         ref_name="ref", est_name="dir%d/est_%d.tum" %
                         (k, k if k < 2 else 0))
        path = os.path.join(workdir, "res%d.zip" % k)
        file_interface.save_res_file(path, copy.deepcopy(r))
        files.append((path, r))
    # unusual but valid inputs:
    #  3: a file name with glob metacharacters next to a sibling it would
    #     match as a pattern ("res[1].zip" vs "res1.zip")
    #  4: a stored statistic that is NaN
    #  5: a different set of statistics (no median, an extra percentile)
    for k, (fname, edit) in enumerate((
            ("res[1].zip", lambda st: None),
            ("res4.zip", lambda st: st.__setitem__("max", float("nan"))),
            ("res5.zip", lambda st: (st.pop("median"),
                                     st.__setitem__("p95", 0.75)))), 3):
        r = copy.deepcopy(files[k - 3][1])
        r.info["est_name"] = "dir%d/est_%d.tum" % (k, k)
        for name in list(r.stats):
            r.stats[name] = r.stats[name] + 0.001 * k
        edit(r.stats)
        path = os.path.join(workdir, fname)
        # (the expectation keeps its own object: a writer that edits its
        # argument is C16's subject, not this check's)
        file_interface.save_res_file(path, copy.deepcopy(r))
        files.append((path, r))
    return files


def _cell(x):
    return float("nan") if x in ("", None) else float(x)


def _same(a, b):
    if a is None or b is None:
        return a is b
    return (a != a and b != b) or abs(a - b) <= 1e-12 * max(1.0, abs(b))


def run_res_case(workdir, files, sel, use_filenames, merge, transpose=True):
    from evo.tools.settings import SETTINGS
    dict.__setitem__(SETTINGS, "table_export_transpose", transpose)
    try:
        return _run_res_case(workdir, files, sel, use_filenames, merge,
                             transpose)
    finally:
        dict.__setitem__(SETTINGS, "table_export_transpose", True)


def _run_res_case(workdir, files, sel, use_filenames, merge, transpose):
    paths = [files[i][0] for i in sel]
    # the name of the table file is the user's business (the format is a
    # package setting): a few names cycle through the selections
    ext = (".csv", ".json", ".tex", "", ".txt")[(sum(sel) + len(sel)) % 5]
    out = os.path.join(workdir, "table_%s_%d_%d%s" %
                       ("".join(map(str, sel)), use_filenames, merge, ext))
    if os.path.exists(out):
        os.remove(out)
    argv = list(paths) + ["--save_table", out, "--no_warnings", "--silent"]
    if use_filenames:
        argv.append("--use_filenames")
    if merge:
        argv.append("--merge")
    res = cli.run_cli("res", argv)
    msgs = []
    results = [files[i][1] for i in sel]
    if merge and len({frozenset(r.stats) for r in results}) > 1:
        if res.ok:
            return ["results with different statistics were merged"], \
                "merge-refused"
        if res.exc is not None and not cli.is_evo_refusal(res):
            return ["evo_res --merge crashed instead of refusing: %s %s" %
                    (type(res.exc).__name__, res.exc)], "merge-refused"
        return [], "merge-refused"
    if merge:
        labels = [os.path.basename(results[0].info["est_name"])]
        exp = [{k: sum(r.stats[k] for r in results) / len(results)
                for k in results[0].stats}]
    else:
        labels = [p if use_filenames else os.path.basename(
            r.info["est_name"]) for p, r in zip(paths, results)]
        exp = [dict(r.stats) for r in results]
    if len(set(labels)) != len(labels):
        if res.ok:
            msgs.append("duplicate labels %s were not refused" % labels)
        return msgs, "duplicate-refused"
    if not res.ok:
        return ["evo_res failed: %s %s" % (res.outcome(), res.exc)], "failed"
    if not os.path.exists(out):
        return ["no table written"], "failed"
    with open(out) as f:
        text = f.read()
    table = None
    if text.lstrip().startswith("{"):
        # not the configured csv format (whatever the file is called): read
        # it as a JSON object of columns anyway and compare the numbers
        try:
            cols = json.loads(text)
            table = {}
            for col, cells in cols.items():
                for row, val in cells.items():
                    table.setdefault(row, {})[col] = "" if val is None \
                        else repr(val)
        except ValueError:
            table = None
    if table is None:
        rows = list(csv.reader(text.splitlines()))
        header, body = rows[0][1:], rows[1:]
        if transpose:
            table = {row[0]: dict(zip(header, row[1:])) for row in body}
        else:
            # non-default setting: statistics in rows, results in columns
            table = {lab: {row[0]: row[1 + k] for row in body}
                     for k, lab in enumerate(header)}
    if sorted(table) != sorted(labels):
        msgs.append("table rows %s != expected labels %s" %
                    (sorted(table), sorted(labels)))
        return msgs, "table"
    for lab, st in zip(labels, exp):
        for k, v in st.items():
            if k not in table[lab] or not _same(_cell(table[lab][k]), v):
                msgs.append("table[%s][%s] = %s, stored statistic %r" %
                            (lab, k, table[lab].get(k), v))
        for k, cell in table[lab].items():
            if k not in st and cell not in ("", None) and \
                    _cell(cell) == _cell(cell):
                msgs.append("table[%s][%s] = %s although that file stores "
                            "no such statistic" % (lab, k, cell))
    return msgs, "table-merged" if merge else "table"


def iterables_part(files):
    """the bridge function takes any iterable of result files"""
    from evo.tools import pandas_bridge
    acc = Acc()
    paths = [f[0] for f in files]
    for merge in (False, True):
        base = pandas_bridge.load_results_as_dataframe(list(paths[:2]),
                                                       merge=merge)
        for name, make in (("tuple", tuple), ("iterator", iter),
                           ("generator", lambda p: (x for x in p))):
            acc.count("evaluations")
            acc.count("transitions")
            case = {"iterable": name, "merge": merge}
            try:
                df = pandas_bridge.load_results_as_dataframe(
                    make(paths[:2]), merge=merge)
                ok = df.shape == base.shape and df.to_json() == base.to_json()
                msg = "table from a %s of result files differs from the " \
                    "table of the same list (shape %s vs %s)" % (
                        name, df.shape, base.shape)
            except Exception as e:
                ok, msg = False, "%s of result files raised %s: %s" % (
                    name, type(e).__name__, e)
            if not ok:
                acc.violation("iterables", msg, case, {"kind": "iterables"})
    return acc


def res_part(ctx):
    acc = Acc()
    files = _make_result_files(ctx.workdir)
    acc.merge(iterables_part(files))
    sels = [s for n in (1, 2, 3)
            for s in itertools.permutations(range(len(files)), n)]
    for sel in sels:
        for use_filenames in (False, True):
            # (table_export_transpose is bound as a default argument when
            # evo is imported; it cannot be varied inside one process)
            for merge, transpose in ((False, True), (True, True)):
                msgs, outcome = run_res_case(ctx.workdir, files, sel,
                                             use_filenames, merge, transpose)
                acc.count("evaluations")
                acc.count("transitions")
                acc.count("nontrivial")
                acc.outcome("evo_res:" + outcome)
                case = {"sel": list(sel), "use_filenames": use_filenames,
                        "merge": merge, "transpose": transpose}
                if msgs:
                    acc.violation("evo_res", "; ".join(msgs[:2]), case,
                                  {"kind": "evo_res"})
                elif len(acc.samples) < 5 and len(sel) == 2:
                    acc.sample(case)
    return acc


def run(ctx):
    lengths = ctx.pick((0, 1, 3), (0, 1, 2, 3))
    ntypes = len(result_types(lengths))
    acc = pmap_acc(ctx, __name__, "shard_lists",
                   [(lengths, s, 3) for s in shard(range(ntypes), 64)])
    nchain = len([t for t in result_types((0, 2))
                  if t["stats"] == STAT_SETS[0] and len(t["skeys"]) == 2
                  and "c" not in [k for k, _ in t["arrays"]]])
    acc.merge(pmap_acc(ctx, __name__, "shard_chains",
                       [(4, s) for s in shard(range(nchain), 16)]))
    if ctx.thorough:
        acc.merge(pmap_acc(ctx, __name__, "shard_chains",
                           [(6, s) for s in shard(range(nchain), 16)]))
    # chains of 8 over 3 types
    acc.merge(res_part(ctx))
    acc.merge(repr_part(ctx))
    acc.counters["states"] = acc.counters["evaluations"]
    acc.rule = (
        "all lists of 1..3 results over %d result types (3 statistic value "
        "sets x array lengths %s for one or two arrays x both key insertion "
        "orders + one missing statistic key + one extra array key); all "
        "chains of 4%s over %d types; evo_res --save_table for every ordered "
        "selection of 1..3 of 6 result files (three plain ones, a file name "
        "with glob metacharacters next to the sibling it would match, a NaN "
        "statistic, a different set of statistics) x use_filenames x merge. "
        "merge_results also on arrays in other representations (int64 / "
        "float32 first or later, one array object under two keys, read-only, "
        "lists). non-trivial = lists mixing key insertion orders or needing the "
        "append strategy" % (ntypes, list(lengths),
                             " and 6" if ctx.thorough else "", nchain))
    acc.bounds = {"list_length": 3, "chain_length": 6 if ctx.thorough else 4}
    return acc


def replay(part, case):
    if part == "merge":
        types = result_types(tuple(case["lengths"]))
        return judge([types[i] for i in case["types"]])[0]
    if part == "merge-chain":
        types = [t for t in result_types((0, 2))
                 if t["stats"] == STAT_SETS[0] and len(t["skeys"]) == 2
                 and "c" not in [k for k, _ in t["arrays"]]]
        return judge([types[i] for i in case["chain"]])[0]
    if part == "iterables":
        files = _make_result_files(os.getcwd())
        return [v["msg"] for v in iterables_part(files).violations
                if v["case"] == case]
    if part == "merge-identity":
        return judge_identity(case)[0]
    if part == "merge-repr":
        return judge_repr(case)[0]
    if part == "evo_res":
        wd = os.getcwd()
        files = _make_result_files(wd)
        return run_res_case(wd, files, case["sel"], case["use_filenames"],
                            case["merge"], case.get("transpose", True))[0]
    return []
