"""
C16 - computations do not modify their inputs; derived objects are independent.

Part A (purity table, E1): every public computing / plotting / writing
function x initial objects x cache states: bit-exact snapshots of all argument
objects before and after the call.
Part B (heap exploration, E2): BFS over histories of derive / mutate
operations on a small heap of trajectory objects; after every mutation every
*other* object must be bitwise unchanged in all views.
"""
import copy
import io
import math
import os

import numpy as np

from mc import common
from mc.engine import hist
from mc.engine.core import Acc, pmap_acc
from mc.refmodel import geom

FACTORY = "mc.checks.c16.Heap"

_Rz = geom.rodrigues((0, 0, 1), math.pi / 2).round()
_Rx = geom.rodrigues((1, 0, 0), math.pi / 2).round()

# distance gap (4 > 2), time gap (2.5 > 1), speeds 2, 1.6, 2
P0 = [np.array(p, dtype=float)
      for p in ((0, 0, 1), (1, 0, 2), (5, 0, 3), (6, 1, 4))]
R0 = [np.eye(3), _Rz, _Rx, _Rx @ _Rz]
T0 = [0.0, 0.5, 3.0, 3.5]
T_SE3 = geom.pose(_Rx, [1.0, -2.0, 3.0])


# ---------------------------------------------------------------- snapshots
def snap(o):
    """bit-exact, structure-aware snapshot of any argument object"""
    from evo.core.trajectory import PosePath3D
    from evo.core.result import Result
    import pandas as pd
    if isinstance(o, PosePath3D):
        # all views + timestamps + meta, read through a deep copy (filling
        # a lazily computed cache is not an observable modification)
        return ("traj", common.snapshot(o))
    if isinstance(o, np.ndarray):
        return ("nd", o.dtype.str, o.shape, o.tobytes())
    if isinstance(o, Result):
        return ("res", snap(o.info), snap(o.stats), snap(o.np_arrays),
                snap(o.trajectories))
    if isinstance(o, dict):
        return ("dict", [(repr(k), snap(v)) for k, v in o.items()])
    if isinstance(o, (list, tuple)):
        return (type(o).__name__, [snap(v) for v in o])
    if isinstance(o, pd.DataFrame):
        return ("df", o.to_json(double_precision=15), list(map(str, o.index)),
                o.values.tobytes() if o.values.dtype != object else b"")
    return ("val", repr(o))


def objects(kind, mode):
    """fresh argument objects"""
    stamps = T0 if kind == "traj" else None
    # (metadata as evo gives trajectories read from bag files)
    a = common.make_traj(R0, P0, stamps, mode, meta={"frame_id": "odom"})
    Rb = [_Rz @ R for R in R0]
    Pb = [2.0 * (_Rz @ p) + np.array([1.0, 1.0, 0.0]) + (
        np.array([0, 0, 1.0]) if k == 3 else 0) for k, p in enumerate(P0)]
    b = common.make_traj(Rb, Pb, None if stamps is None else
                         [t + 0.125 for t in T0], mode,
                         meta={"frame_id": "map",
                               "child_frame_id": "base_link"})
    return a, b


# ------------------------------------------------------------- purity table
def _calls():
    """list of (name, needs_stamps, function(a, b) -> list of argument
    objects that must stay untouched).  a, b: reference / estimate."""
    from evo.core import metrics, sync, filters, trajectory, geometry, result
    from evo.core.units import Unit
    from evo.tools import pandas_bridge, file_interface
    calls = []

    def add(name, fn, needs_stamps=False):
        calls.append((name, needs_stamps, fn))

    for rel in metrics.PoseRelation:
        if rel != metrics.PoseRelation.point_distance_error_ratio:
            def f(a, b, W, rel=rel):
                m = metrics.APE(rel)
                m.process_data((a, b))
                m.get_all_statistics()
                m.get_result()
            add("APE.%s" % rel.name, f)
        for unit, delta, allp in ((Unit.frames, 1, False), (Unit.frames, 2,
                                                            True),
                                  (Unit.meters, 1.0, False),
                                  (Unit.degrees, 45.0, True),
                                  (Unit.radians, 1.0, False)):
            def g(a, b, W, rel=rel, unit=unit, delta=delta, allp=allp):
                m = metrics.RPE(rel, delta, unit, 0.5, allp,
                                pairs_from_reference=allp)
                try:
                    with common.quiet():
                        m.process_data((a, b))
                    m.get_all_statistics()
                    m.get_result()
                except filters.FilterException:
                    pass
            add("RPE.%s.%s.%s" % (rel.name, unit.name, allp), g)

    def f_align(a, b, W):
        c = copy.deepcopy(b)
        c.align(a)
        c = copy.deepcopy(b)
        c.align(a, correct_scale=True, n=3)
        c = copy.deepcopy(b)
        c.align(a, correct_only_scale=True)
        c = copy.deepcopy(b)
        c.align_origin(a)
    add("align/align_origin (reference)", f_align)

    def f_op_args(a, b, W):
        """the non-trajectory arguments of the in-place operations: the
        transformation matrix, the index container, the thresholds"""
        T_sim = W(geom.sim_matrix(_Rx, [1.0, -2.0, 3.0], 2.0),
                  "Sim(3) matrix given to transform()")
        T_se = W(T_SE3.copy(), "SE(3) matrix given to transform()")
        for T in (T_sim, T_se):
            for kw in ({}, {"right_mul": True},
                       {"right_mul": True, "propagate": True}):
                c = copy.deepcopy(a)
                c.transform(T, **kw)
        n = a.num_poses
        for ids in (W([0, n - 1], "index list given to reduce_to_ids()"),
                    W(np.array([0, -2, -1]), "index array (with negative "
                      "indices) given to reduce_to_ids()"),
                    W([-n, -1], "index list (negative) given to "
                      "reduce_to_ids()")):
            c = copy.deepcopy(a)
            c.reduce_to_ids(ids)
        c = copy.deepcopy(a)
        c.scale(W(np.float64(2.0), "scale factor"))
        c.downsample(W(3, "number of poses"))
    add("arguments of transform/reduce_to_ids/scale", f_op_args)

    def f_assoc(a, b, W):
        twin = copy.deepcopy(a)
        W(twin, "trajectory with the same timestamps")
        same = sync.associate_trajectories(a, twin, 0.25)
        assert same[0] is not a and same[1] is not twin, \
            "associate_trajectories returned its input objects"
        mutate_output(list(same))
        assert not W.changed(), ("mutating trajectories associated with "
                                 "equal timestamps changed %s" % W.changed())
        out = sync.associate_trajectories(a, b, 0.25)
        out2 = sync.associate_trajectories(b, a, 0.25, offset_2=0.125)
        mutate_output([out, out2])
        assert not W.changed(), ("mutating associated trajectories changed "
                                 "%s" % W.changed())
        s1, s2 = W(a.timestamps.copy()), W(b.timestamps.copy())
        sync.matching_time_indices(s1, s2, 0.25, 0.5)
        sync.matching_time_indices(s2, s1, 0.25, -0.5)
    add("associate_trajectories/matching_time_indices", f_assoc, True)

    def f_pairs(a, b, W):
        poses = W([np.array(p) for p in a.poses_se3], "pose list")
        for unit, d in ((Unit.frames, 1), (Unit.meters, 1.0),
                        (Unit.degrees, 90.0), (Unit.radians, 1.0)):
            for allp in (False, True):
                try:
                    with common.quiet():
                        metrics.id_pairs_from_delta(poses, d, unit, 0.5, allp)
                except filters.FilterException:
                    pass
        filters.filter_by_motion(poses, 1.5, 0.5)
    add("id_pairs_from_delta/filters", f_pairs)

    def f_split(a, b, W):
        parts = list(a.split_distance_gaps(2.0))
        a.split_distance_gaps(100.0)
        if hasattr(a, "timestamps"):
            parts += list(a.split_time_gaps(1.0))
            parts += list(a.split_speed_outliers(1.8))
            a.speeds, a.get_statistics()
        mutate_output([p for p in parts if p is not a])
        assert not W.changed(), ("mutating split parts changed %s" %
                                 W.changed())
        a.distances, a.path_length, a.get_infos(), a.check(), str(a)
        a == b
        a.get_orientations_euler()
    add("splits/derived quantities/==", f_split)

    def f_merge(a, b, W):
        m = trajectory.merge([a, b])
        m1 = trajectory.merge([a])
        mutate_output([m, m1])
        assert not W.changed(), ("mutating a merged trajectory changed %s" %
                                 W.changed())
    add("trajectory.merge", f_merge, True)

    def f_df(a, b, W):
        df = W(pandas_bridge.trajectory_to_df(a), "DataFrame")
        t2 = pandas_bridge.df_to_trajectory(df)
        pandas_bridge.trajectory_stats_to_df(a)
        mutate_output(t2)
        assert not W.changed(), ("mutating a trajectory made from a "
                                 "DataFrame changed %s" % W.changed())
        W.items.pop()
        mutate_output(df)
        assert not W.changed(), ("mutating the DataFrame of a trajectory "
                                 "changed %s" % W.changed())
    add("pandas_bridge", f_df)

    def f_umeyama(a, b, W):
        x = W(a.positions_xyz.T.copy(), "x point array")
        y = W(b.positions_xyz.T.copy(), "y point array")
        geometry.umeyama_alignment(x, y, True)
    add("umeyama_alignment", f_umeyama)

    def f_results(a, b, W):
        rs = []
        for k in range(3):
            m = metrics.APE(metrics.PoseRelation.translation_part)
            m.process_data((a, b))
            r = m.get_result()
            r.add_trajectory("ref", copy.deepcopy(a))
            r.add_trajectory("est", copy.deepcopy(b))
            r.add_np_array("extra", np.arange(3.0) + k)
            rs.append(r)
        W(rs, "list of results")
        m1 = result.merge_results(rs)
        m2 = result.merge_results(rs[:2])
        pandas_bridge.result_to_df(rs[0])
        assert not W.changed(), "merge_results (average) modified an input"
        # a merged result is a derived object: operating on it (or on the
        # trajectories it carries) must not reach the inputs
        mutate_output([m1, m2])
        assert not W.changed(), ("mutating a merged result changed its "
                                 "inputs: %s" % W.changed())
        W.items.pop()
        rs[1].np_arrays["extra"] = np.arange(5.0)
        W(rs, "list of results (append strategy)")
        result.merge_results(rs)
    add("merge_results/result_to_df", f_results)

    def f_write(a, b, W):
        if hasattr(a, "timestamps"):
            file_interface.write_tum_trajectory_file("w.tum", a)
            file_interface.write_tum_trajectory_file(io.StringIO(), a)
        file_interface.write_kitti_poses_file("w.kitti", a)
        m = metrics.APE(metrics.PoseRelation.full_transformation)
        m.process_data((a, b))
        r = m.get_result()
        r.add_trajectory("ref", a)
        r.add_trajectory("est", b)
        W(r, "result")
        file_interface.save_res_file("w.zip", r)
        # values a serialiser may want to rewrite: non-finite numbers, numpy
        # scalars, nested containers
        r2 = m.get_result()
        r2.stats["max"] = float("nan")
        r2.stats["min"] = np.float64(0.25)
        r2.info["upper_bound"] = float("inf")
        r2.info["lower_bound"] = -float("inf")
        r2.info["nested"] = {"values": [1.5, float("nan")], "name": "n"}
        W(r2, "result with non-finite statistics / info values")
        file_interface.save_res_file("w2.zip", r2)
        with open("w3.zip", "wb") as fh:
            file_interface.save_res_file(fh, r2)
        pandas_bridge.result_to_df(r2)
    add("writers", f_write)

    def f_plot(a, b, W):
        import matplotlib.pyplot as plt
        from evo.tools import plot
        err = W(np.linspace(0.0, 1.0, a.num_poses), "error array")
        x = W(np.arange(float(a.num_poses)), "x array")
        for mode in (plot.PlotMode.xy, plot.PlotMode.xyz, plot.PlotMode.zx):
            fig = plt.figure()
            ax = plot.prepare_axis(fig, mode)
            plot.traj(ax, mode, a, plot_start_end_markers=True)
            plot.traj_colormap(ax, b, err, mode, 0.0, 1.0, fig=fig,
                               plot_start_end_markers=True)
            plot.draw_coordinate_axes(ax, a, mode, 0.5)
            plot.draw_correspondence_edges(ax, a, b, mode)
            plot.trajectories(fig, {"a": a, "b": b}, mode)
            plt.close(fig)
        fig, axarr = plt.subplots(3)
        plot.traj_xyz(axarr, a, start_timestamp=0.25)
        plot.traj_xyz(axarr, b)
        plt.close(fig)
        fig, axarr = plt.subplots(3)
        plot.traj_rpy(axarr, a, start_timestamp=0.25)
        plot.traj_rpy(axarr, b)
        plt.close(fig)
        if hasattr(a, "timestamps"):
            fig = plt.figure()
            plot.speeds(fig.gca(), a, start_timestamp=0.25)
            plot.speeds(fig.gca(), b)
            plt.close(fig)
        fig = plt.figure()
        stats = W({"mean": 0.5, "std": 0.1, "rmse": 0.6}, "statistics")
        plot.error_array(fig.gca(), err, x_array=x, statistics=stats,
                         cumulative=False)
        plot.error_array(fig.gca(), err, x_array=x, cumulative=True)
        plt.close(fig)
    add("plot functions", f_plot)

    def f_more_writers(a, b, W):
        """the less travelled writers: ROS1 bag export (quaternions that are
        unit only to about 1e-7, as parsed from a text file) and the table
        writer in both orientations"""
        from evo.core.trajectory import PoseTrajectory3D
        from evo.tools.settings import SETTINGS
        if hasattr(a, "timestamps"):
            from rosbags.rosbag1 import Writer
            q = np.array(a.orientations_quat_wxyz) * (1.0 + 3e-7)
            t = PoseTrajectory3D(np.array(a.positions_xyz), q,
                                 np.array(a.timestamps),
                                 meta={"frame_id": "map"})
            W(t, "trajectory written to the bag")
            if os.path.exists("w.bag"):
                os.remove("w.bag")
            wr = Writer("w.bag")
            wr.open()
            try:
                file_interface.write_bag_trajectory(wr, t, "/traj", "map")
            finally:
                wr.close()
        df = pandas_bridge.trajectories_stats_to_df(
            {"orb": a, "ground_truth": b, "kimera": a}) \
            if hasattr(pandas_bridge, "trajectories_stats_to_df") else \
            pandas_bridge.trajectory_stats_to_df(a)
        W(df, "DataFrame handed to save_df_as_table")
        for transpose in (True, False):
            pandas_bridge.save_df_as_table(df, "w_table.csv",
                                           SETTINGS.table_export_format,
                                           transpose)
    add("bag writer / table writer", f_more_writers)

    def f_copying(a, b, W):
        """copy / deepcopy / pickle are computations on their argument too.
        Observed WITHOUT deep copies (the harness' usual snapshot is a deep
        copy itself): the stored attributes and the values read from the
        live object"""
        import pickle
        from evo.core.trajectory import PosePath3D, PoseTrajectory3D
        quat = np.array([[-0.5, 0.5, 0.5, 0.5], [0.0, 1.0, 0.0, 0.0],
                         [-1.0, 0.0, 0.0, 0.0], [0.6, 0.0, -0.8, 0.0]])
        xyz = np.array([[0.0, 1.0, 2.0], [1.0, 1.5, 2.0], [2.0, 1.0, 2.5],
                        [3.0, 0.5, 2.0]])
        if hasattr(a, "timestamps"):
            t = PoseTrajectory3D(xyz, quat, np.array(T0))
        else:
            t = PosePath3D(xyz, quat)
        for materialise in (False, True):
            if materialise:
                t.poses_se3    # all three representations held at once
            for label, op in (("copy.deepcopy", copy.deepcopy),
                              ("copy.copy", copy.copy),
                              ("pickle", lambda o: pickle.loads(
                                  pickle.dumps(o)))):
                keys = sorted(t.__dict__)
                q0 = t.orientations_quat_wxyz.tobytes()
                p0 = t.positions_xyz.tobytes()
                keys = sorted(t.__dict__)
                c = op(t)
                assert sorted(t.__dict__) == keys, (
                    "%s changed the stored attributes of its argument: %s "
                    "-> %s" % (label, keys, sorted(t.__dict__)))
                assert t.orientations_quat_wxyz.tobytes() == q0 and \
                    t.positions_xyz.tobytes() == p0, (
                        "%s changed the quaternions / positions of its "
                        "argument" % label)
                assert c.orientations_quat_wxyz.tobytes() == q0 and \
                    c.positions_xyz.tobytes() == p0, (
                        "the %s copy holds other quaternions / positions "
                        "than the original" % label)
    add("copy/deepcopy/pickle", f_copying)
    return calls


def shard_purity(arg):
    acc = Acc()
    names = arg
    for name in names:
        for kind in ("path", "traj"):
            for mode in ("se3", "quat", "se3+read", "quat+read", "quatF",
                         "quatF+read"):
                msgs = run_purity(name, kind, mode)
                if msgs is None:
                    continue
                acc.count("evaluations")
                acc.count("transitions")
                acc.count("nontrivial")
                acc.outcome("purity:" + ("violated" if msgs else "pure"))
                case = {"name": name, "kind": kind, "mode": mode}
                if msgs:
                    acc.violation("purity", "; ".join(msgs[:3]), case,
                                  {"kind": "purity", "fn": name})
                else:
                    acc.sample(case)
    return acc


def mutate_output(o):
    """in-place operations on a derived object (any of them must leave the
    objects it was derived from untouched)"""
    from evo.core.trajectory import PosePath3D, Plane
    from evo.core.result import Result
    import pandas as pd
    if isinstance(o, PosePath3D):
        o.transform(T_SE3.copy())
        o.scale(2.0)
        for name in ("_positions_xyz", "_orientations_quat_wxyz",
                     "timestamps"):
            a = getattr(o, name, None)
            if isinstance(a, np.ndarray) and a.flags.writeable and a.size:
                a += 1.0
        for P in o.poses_se3:
            if isinstance(P, np.ndarray) and P.flags.writeable:
                P[0, 3] += 5.0
        try:
            o.project(Plane.XY)
        except Exception:
            pass
        if o.num_poses > 1:
            o.reduce_to_ids([0])
    elif isinstance(o, Result):
        for t in list(o.trajectories.values()):
            mutate_output(t)
        o.trajectories.clear()
        for k, a in list(o.np_arrays.items()):
            if isinstance(a, np.ndarray) and a.flags.writeable and a.size \
                    and a.dtype.kind == "f":
                a += 1.0
        o.np_arrays["added"] = np.zeros(2)
        o.stats["added"] = 1.0
        o.info["added"] = "x"
    elif isinstance(o, np.ndarray):
        if o.flags.writeable and o.size and o.dtype.kind == "f":
            o += 1.0
    elif isinstance(o, pd.DataFrame):
        o.iloc[:, :] = 0.0
    elif isinstance(o, (list, tuple)):
        for x in o:
            mutate_output(x)


class Watch(object):
    """registers argument objects with a snapshot taken at registration"""
    def __init__(self):
        self.items = []

    def __call__(self, obj, what="argument"):
        self.items.append((obj, snap(obj), what))
        return obj

    def changed(self):
        return [what for obj, s, what in self.items if snap(obj) != s]


def run_purity(name, kind, mode):
    """call one table entry with fresh arguments; every argument object is
    snapshotted bit-exactly before and compared after"""
    for cname, needs_stamps, fn in _calls():
        if cname != name:
            continue
        if needs_stamps and kind != "traj":
            return None
        a, b = objects(kind, mode)
        W = Watch()
        W(a, "first trajectory")
        W(b, "second trajectory")
        if kind == "traj":
            W(a.timestamps, "timestamps array of the first trajectory")
            W(b.timestamps, "timestamps array of the second trajectory")
        msgs = []
        try:
            with common.quiet():
                fn(a, b, W)
        except AssertionError as e:
            msgs.append(str(e))
        for what in W.changed():
            msgs.append("%s modified its %s" % (name, what))
        return msgs
    raise KeyError(name)


# --------------------------------------------------------------------- heap
class HState(object):
    def __init__(self, objs):
        self.objs = objs


DERIVE = ["deepcopy", "associate", "split_distance", "split_time",
          "split_speed", "merge", "df_roundtrip", "split_nogap",
          # a second object constructed from the very pose list / arrays of
          # the first (what the split functions do with slices)
          "share_list"]
MUTATE = ["transform", "scale", "project_xy", "project_xz", "reduce",
          "align_origin", "align", "read_all", "motion_filter"]
MAXHEAP = 3


def _heap_ops():
    ops = []
    for i in range(MAXHEAP):
        for d in DERIVE:
            ops.append(("derive", d, i))
    for i in range(MAXHEAP):
        for m in MUTATE:
            ops.append(("mutate", m, i))
    return ops


HOPS = _heap_ops()


def _mem_arrays(o):
    arrs = []
    for name in ("_positions_xyz", "_orientations_quat_wxyz", "timestamps"):
        if hasattr(o, name) and isinstance(getattr(o, name), np.ndarray):
            arrs.append(getattr(o, name))
    if hasattr(o, "_poses_se3"):
        arrs.extend(p for p in o._poses_se3 if isinstance(p, np.ndarray))
    return arrs


def shares(o1, o2):
    for a in _mem_arrays(o1):
        for b in _mem_arrays(o2):
            if np.shares_memory(a, b):
                return True
    return False


class Heap(object):
    n_inits = 6
    replay_per_op = True

    def initial(self, i):
        # 0..3: {path, trajectory} x {matrices, positions+quaternions};
        # 4, 5: trajectory / path holding its matrices as one (n,4,4) array
        kind = "traj" if i in (2, 3, 4) else "path"
        mode = ("se3" if i % 2 == 0 else "quat") if i < 4 else "arr"
        a, _ = objects(kind, mode)
        return HState([a])

    def describe(self, op):
        k, name, i = HOPS[op]
        return "%s(obj%d)" % (name, i)

    def enabled(self, st):
        from evo.core.trajectory import PoseTrajectory3D
        for k, (kind, name, i) in enumerate(HOPS):
            if i >= len(st.objs):
                continue
            o = st.objs[i]
            if kind == "derive" and len(st.objs) >= MAXHEAP:
                continue
            if name in ("associate", "split_time", "split_speed", "merge") \
                    and not isinstance(o, PoseTrajectory3D):
                continue
            if o.num_poses == 0:
                continue
            yield k

    def key(self, st):
        parts = []
        for o in st.objs:
            flags = (type(o).__name__, hasattr(o, "_positions_xyz"),
                     hasattr(o, "_orientations_quat_wxyz"),
                     hasattr(o, "_poses_se3"), bool(getattr(o, "_projected", False)),
                     type(getattr(o, "_poses_se3", None)).__name__)
            c = copy.deepcopy(o)
            parts.append(repr(flags).encode())
            parts.append((np.round(np.array(c.poses_se3), 9) + 0.0).tobytes())
            if hasattr(c, "timestamps"):
                parts.append(c.timestamps.tobytes())
        n = len(st.objs)
        graph = tuple(shares(st.objs[i], st.objs[j]) for i in range(n)
                      for j in range(i + 1, n))
        parts.append(repr(graph).encode())
        return b"|".join(parts)

    def note(self, acc, st, label):
        n = len(st.objs)
        if any(shares(st.objs[i], st.objs[j]) for i in range(n)
               for j in range(i + 1, n)):
            acc.count("states_with_shared_buffers")
            acc.count("nontrivial")

    def classify(self, hist_, msgs):
        return {"kind": "heap"}

    def step(self, st, op, check=True):
        from evo.core import sync, trajectory
        from evo.core.trajectory import Plane, PosePath3D
        from evo.tools import pandas_bridge
        kind, name, i = HOPS[op]
        o = st.objs[i]
        msgs = []
        label = name
        others = [k for k in range(len(st.objs)) if k != i]
        before = {k: snap(st.objs[k]) for k in others} if check else {}
        self_before = snap(o) if check and kind == "derive" else None
        new = []
        try:
            if kind == "derive":
                if name == "deepcopy":
                    new = [copy.deepcopy(o)]
                elif name == "associate":
                    new = [sync.associate_trajectories(o, o, 0.25)[0]]
                elif name == "split_distance":
                    new = list(o.split_distance_gaps(2.0))
                elif name == "split_nogap":
                    new = list(o.split_distance_gaps(1000.0))
                elif name == "split_time":
                    new = list(o.split_time_gaps(1.0))
                elif name == "split_speed":
                    new = list(o.split_speed_outliers(1.8))
                elif name == "merge":
                    new = [trajectory.merge([o])]
                elif name == "share_list":
                    from evo.core.trajectory import PoseTrajectory3D
                    kw = {"poses_se3": o.poses_se3}
                    if isinstance(o, PoseTrajectory3D):
                        new = [PoseTrajectory3D(timestamps=o.timestamps,
                                                **kw)]
                    else:
                        new = [PosePath3D(**kw)]
                elif name == "df_roundtrip":
                    new = [pandas_bridge.df_to_trajectory(
                        pandas_bridge.trajectory_to_df(o))]
                # an object returned as itself (a split without gaps
                # returns [self]) is not a derived object; every other
                # derivation must hand out a new, independent object
                if not name.startswith("split") and any(
                        x is y for x in new for y in st.objs):
                    msgs.append("%s returned its input object itself instead "
                                "of an independent one" % name)
                new = [x for x in new if all(x is not y for y in st.objs)]
                # keep the first and the last derived part
                if len(new) > 1:
                    new = [new[0], new[-1]]
                room = MAXHEAP - len(st.objs)
                new = new[:room]
                if check and snap(o) != self_before:
                    msgs.append("%s modified the object it derives from" %
                                name)
                st.objs.extend(new)
                label += "/+%d" % len(new)
            else:
                if name == "transform":
                    o.transform(T_SE3.copy())
                elif name == "scale":
                    o.scale(2.0)
                elif name == "project_xy":
                    o.project(Plane.XY)
                elif name == "project_xz":
                    o.project(Plane.XZ)
                elif name == "reduce":
                    o.reduce_to_ids([0, o.num_poses - 1])
                elif name == "motion_filter":
                    o.motion_filter(1.5, 50.0, True)
                elif name == "align_origin":
                    ref = PosePath3D(poses_se3=[T_SE3.copy()])
                    o.align_origin(ref)
                elif name == "align":
                    n = o.num_poses
                    ref = common.make_traj(R0[:n], [2 * p for p in P0[:n]],
                                           None, "se3")
                    o.align(ref, correct_scale=True)
                elif name == "read_all":
                    o.poses_se3, o.positions_xyz, o.orientations_quat_wxyz
        except Exception as e:
            if not common.is_evo_exc(e):
                msgs.append("%s raised %s: %s" % (name, type(e).__name__, e))
                return st, msgs, label + "/crash"
            label += "/refused"
        if check:
            for k in others:
                if snap(st.objs[k]) != before[k]:
                    msgs.append(
                        "%s on obj%d changed obj%d (the poses seen through "
                        "another object)" % (name, i, k))
            # every object must still be internally consistent
            for k, x in enumerate(st.objs):
                v = common.views(x)
                for M, p in zip(v["poses"], v["xyz"]):
                    if not np.array_equal(M[:3, 3], p):
                        msgs.append("obj%d: cached positions disagree with "
                                    "its pose matrices" % k)
                        break
        return st, msgs, label


def run(ctx):
    names = [c[0] for c in _calls()]
    acc = pmap_acc(ctx, __name__, "shard_purity", [[n] for n in names])
    depth = ctx.pick(3, 4)
    try:
        acc2 = hist.bfs(ctx, FACTORY, depth)
    except Exception as e:
        # the explorer observes states through deep copies; if Part A already
        # reports violations (e.g. a deep copy that edits its argument) the
        # exploration cannot be trusted - report Part A
        if type(e).__name__ != "HarnessError" or not acc.vlist:
            raise
        acc2 = Acc()
        acc2.cap_hit("heap exploration abandoned: %s" % str(e)[:200])
    n_purity = acc.counters["evaluations"]
    acc.merge(acc2)
    acc.counters["states"] = acc2.counters["states"] + n_purity
    acc.counters["evaluations"] = acc.counters["transitions"]
    acc.rule = (
        "Part A: %d table entries (metrics for every relation and delta unit, "
        "alignment, association, pair selection, splits, merge, DataFrame, "
        "Umeyama, result merging, writers, all plot functions) x {path, "
        "trajectory} x {matrices, positions+quaternions} x {nothing cached, "
        "all cached}: bit-exact argument snapshots. Part B: BFS to depth %d "
        "over %d derive/mutate operations on a heap of <= %d objects from 4 "
        "initial objects; non-trivial = states in which two objects share a "
        "numpy buffer" % (len(names), depth, len(HOPS), MAXHEAP))
    acc.assumptions = [
        "snapshots read all views through a deep copy plus the raw stored "
        "attributes",
        "an object returned as itself by a split without gaps is the same "
        "object, not a derived one",
    ]
    return acc


def replay(part, case):
    if part == "purity":
        return run_purity(case["name"], case["kind"], case["mode"]) or []
    return hist.replay_history(case.get("factory", FACTORY), case["init"],
                               case["ops"])
