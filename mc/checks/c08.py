"""
C08 - operation histories keep all views of a trajectory consistent and every
operation has its documented effect.

E2: BFS over all histories up to a depth over an alphabet of operations and
reads, on live PosePath3D / PoseTrajectory3D objects in both storage modes,
with a lock-step reference model (plain lists of R, p, t).
"""
import copy
import math

import numpy as np

from mc import common
from mc.engine import hist
from mc.refmodel import geom
from mc.refmodel import pipeline as pl

FACTORY = "mc.checks.c08.System"

_Rz = geom.rodrigues((0, 0, 1), math.pi / 2).round()
_Rx = geom.rodrigues((1, 0, 0), math.pi / 2).round()
_Ry = geom.rodrigues((0, 1, 0), math.pi / 2).round()

INIT_R = [np.eye(3), np.eye(3), _Rz, _Rx @ _Rz]
INIT_P = [np.array(p, dtype=float)
          for p in ((0, 0, 0), (1, 0, 0), (1, 2, 0), (1, 2, 3))]
INIT_T = [0.0, 0.5, 1.0, 2.0]
REF_R = [_Rz, _Rz, _Rz @ _Rz, _Ry]
REF_P = [np.array(p, dtype=float)
         for p in ((1, 1, 1), (1, 3, 1), (-3, 3, 1), (-3, 3, 8))]

T_SE3 = geom.pose(_Rx, [1.0, -2.0, 3.0])
T_SIM3 = geom.sim_matrix(_Rz, [0.0, 1.0, 0.0], 2.0)


class State(object):
    def __init__(self, obj, Rs, ps, stamps):
        self.obj = obj
        self.Rs = [np.array(R) for R in Rs]
        self.ps = [np.array(p, dtype=float) for p in ps]
        self.stamps = None if stamps is None else [float(t) for t in stamps]
        self.projected = False


OPS = [
    ("read_pos", None), ("read_quat", None), ("read_mat", None),
    ("left", "se3"), ("right", "se3"), ("right_prop", "se3"),
    ("left", "sim3"), ("right", "sim3"), ("right_prop", "sim3"),
    # a left multiplication with the propagation switch on: the switch only
    # concerns right-hand side transformations (evo_traj --transform_left
    # --propagate_transform passes exactly this), so this is still P -> T*P
    ("left_propflag", "se3"), ("left_propflag", "sim3"),
    ("read_derived", None),
    ("scale", 2.0),
    ("reduce", (0, 2, 3)),
    # repeated indices are legitimate (rpe() reduces to [0] + pair end ids,
    # which repeat in all-pairs mode): list entries then share one matrix
    ("reduce", (0, 0, 2, 3)),
    ("downsample", 2),
    ("downsample", 12),
    ("downsample", 14),
    ("split_probe", None),
    ("motion_filter", (1.5, 50.0)),
    ("crop", (0.5, 1.0)),
    ("crop", (-1.0, 0.0)),   # a bound that is exactly zero is a bound
    ("align", (False, -1)), ("align", (True, -1)), ("align", (False, 3)),
    ("align_scale_only", None),
    ("align_origin", None),
    ("project", "xy"), ("project", "xz"), ("project", "yz"),
    ("deepcopy", None),
    # calls that evo rejects for their argument: they change nothing and do
    # not count as the operation (a rejected project() is not a projection)
    ("rejected", "project"), ("rejected", "align"),
]


def _ref_poses(n):
    Rs = list(REF_R) + [REF_R[k % 4] for k in range(4, n)]
    ps = list(REF_P) + [np.array([-3.0 - k, 3.0 + (k % 3), 8.0 + 2 * k])
                        for k in range(4, n)]
    return Rs[:n], ps[:n]


def _ref(n):
    Rs, ps = _ref_poses(n)
    return common.make_traj(Rs, ps, None, "se3")


def _norm(a):
    return (np.round(np.asarray(a, dtype=float), 9) + 0.0).tobytes()


class System(object):
    # {path, trajectory} x {list of matrices, positions + quaternions} and a
    # path / trajectory holding its matrices as one (n, 4, 4) array
    # ... and a single-pose trajectory / a two-pose path (constructed that
    # way, not reduced to it)
    n_inits = 8

    def initial(self, i):
        if i >= 6:
            k = 1 if i == 6 else 2
            ts = INIT_T[:k] if i == 6 else None
            obj = common.make_traj(INIT_R[:k], INIT_P[:k], ts,
                                   "quat" if i == 6 else "se3")
            return State(obj, INIT_R[:k], INIT_P[:k], ts)
        with_stamps = i in (2, 3, 5)
        mode = ("se3" if i % 2 == 0 else "quat") if i < 4 else "arr"
        obj = common.make_traj(INIT_R, INIT_P,
                               INIT_T if with_stamps else None, mode)
        return State(obj, INIT_R, INIT_P, INIT_T if with_stamps else None)

    def enabled(self, st):
        if len(st.Rs) == 0:
            return  # an empty trajectory is terminal
        for k, (name, _) in enumerate(OPS):
            if name == "crop" and st.stamps is None:
                continue
            if name == "reduce" and len(set(_)) != len(_) and \
                    st.stamps is not None:
                # repeated indices duplicate timestamps: only meaningful for
                # paths without timestamps
                continue
            yield k

    def describe(self, op):
        name, arg = OPS[op]
        return name if arg is None else "%s(%s)" % (name, arg)

    def key(self, st):
        o = st.obj
        # which attributes exist is the hidden cache state (the three views
        # today; any further cache a refactoring adds is picked up as well)
        flags = (type(o).__name__, tuple(sorted(o.__dict__)),
                 bool(getattr(o, "_projected", False)),
                 type(o.__dict__.get("_poses_se3")).__name__)
        parts = [repr(flags).encode()]
        parts.append(_norm(np.array([geom.pose(R, p)
                                     for R, p in zip(st.Rs, st.ps)])))
        if st.stamps is not None:
            parts.append(_norm(st.stamps))
        return b"|".join(parts)

    def note(self, acc, st, label):
        o = st.obj
        n = sum(hasattr(o, a) for a in ("_positions_xyz",
                                        "_orientations_quat_wxyz",
                                        "_poses_se3"))
        if n >= 2:
            acc.count("nontrivial")  # >= 2 cached views that must agree

    def classify(self, hist_, msgs):
        names = [OPS[o][0] + ":" + str(OPS[o][1]) for o in hist_[1]]
        if any(n.endswith(":sim3") for n in names):
            return {"kind": "sim3-transform"}
        return {"kind": "other"}

    # ------------------------------------------------------------ invariants
    def check_state(self, st):
        msgs = []
        try:
            v = common.views(st.obj)
        except Exception as e:
            return ["reading the views raised %r" % (e, )]
        n = len(st.Rs)
        if not (v["n"] == n == len(v["poses"]) == len(v["xyz"]) == len(
                v["quat"])):
            return ["pose counts differ: num_poses=%s matrices=%d positions="
                    "%d quaternions=%d expected=%d" %
                    (v["n"], len(v["poses"]), len(v["xyz"]), len(v["quat"]),
                     n)]
        scale = max(1.0, max(np.abs(p).max() for p in st.ps))
        for k in range(n):
            M = v["poses"][k]
            if not common.close(M[:3, :3], st.Rs[k]) or not common.close(
                    M[:3, 3], st.ps[k], scale) or not np.array_equal(
                        M[3], [0, 0, 0, 1]):
                msgs.append("pose matrix %d differs from the documented "
                            "effect" % k)
                break
            if not common.close(v["xyz"][k], st.ps[k], scale):
                msgs.append("position %d differs from the documented effect "
                            "(matrix view agrees)" % k)
                break
            q = v["quat"][k]
            if abs(np.linalg.norm(q) - 1.0) > 1e-9 or not common.close(
                    geom.quat_wxyz_to_rot(q), st.Rs[k]):
                msgs.append("quaternion %d does not describe the pose's "
                            "orientation" % k)
                break
        if st.stamps is not None:
            if v["stamps"] is None or len(v["stamps"]) != n or \
                    not np.array_equal(v["stamps"], st.stamps):
                msgs.append("timestamps differ: %s vs %s" %
                            (None if v["stamps"] is None else
                             v["stamps"].tolist(), st.stamps))
        if msgs:
            return msgs
        c = copy.deepcopy(st.obj)
        ok, details = c.check()
        if not ok:
            msgs.append("check() is false: %s" % details)
        # derived quantities
        steps = [float(np.linalg.norm(st.ps[k + 1] - st.ps[k]))
                 for k in range(n - 1)]
        if not common.close(c.path_length, math.fsum(steps), scale):
            msgs.append("path_length %r != %r" %
                        (c.path_length, math.fsum(steps)))
        acc_d = np.concatenate([[0.0], np.cumsum(steps)]) if n else []
        if not common.close(c.distances, acc_d, scale):
            msgs.append("accumulated distances differ")
        if st.stamps is not None and n >= 1:
            dur = c.get_infos()["duration (s)"]
            if dur != st.stamps[-1] - st.stamps[0]:
                msgs.append("duration differs")
            if n >= 2:
                sp = [steps[k] / (st.stamps[k + 1] - st.stamps[k])
                      for k in range(n - 1)]
                if not common.close(c.speeds, sp, scale):
                    msgs.append("speeds differ")
        return msgs

    # ------------------------------------------------------------------ step
    def step(self, st, op, check=True):
        name, arg = OPS[op]
        o = st.obj
        msgs = []
        label = name
        before = common.snapshot(o) if check else None
        may_refuse = False
        new = None  # (Rs, ps, stamps) of the model after the operation
        Rs, ps, ts = st.Rs, st.ps, st.stamps
        n = len(Rs)
        mag = max([1.0] + [float(np.abs(p).max()) for p in ps])
        try:
            if name == "read_pos":
                val = o.positions_xyz
                if check and not common.close(val, np.array(ps), mag):
                    msgs.append("positions_xyz read differs from the model")
                new = (Rs, ps, ts)
            elif name == "read_quat":
                val = o.orientations_quat_wxyz
                if check and not all(
                        common.close(geom.quat_wxyz_to_rot(q), R)
                        for q, R in zip(val, Rs)):
                    msgs.append("orientations read differ from the model")
                new = (Rs, ps, ts)
            elif name == "read_mat":
                val = o.poses_se3
                if check and not all(
                        common.close(M, geom.pose(R, p), mag)
                        for M, R, p in zip(val, Rs, ps)):
                    msgs.append("poses_se3 read differs from the model")
                new = (Rs, ps, ts)
            elif name == "split_probe":
                # splitting reads the (possibly cached) derived quantities of
                # the live object; the parts must partition the *current*
                # poses exactly at the steps exceeding the threshold
                steps = [float(np.linalg.norm(ps[k + 1] - ps[k]))
                         for k in range(n - 1)]
                thr = 1.5
                parts = list(o.split_distance_gaps(thr))
                exp_cuts = [k for k in range(n - 1) if steps[k] > thr]
                sizes = [p_.num_poses for p_ in parts]
                exp_sizes = [b - a for a, b in zip(
                    [0] + [k + 1 for k in exp_cuts],
                    [k + 1 for k in exp_cuts] + [n])]
                if check and sizes != exp_sizes:
                    msgs.append("split_distance_gaps(%g) gives parts of sizes "
                                "%s, the current poses have gaps after %s" %
                                (thr, sizes, exp_cuts))
                if ts is not None and n >= 2:
                    tparts = list(o.split_time_gaps(0.75))
                    tcuts = [k for k in range(n - 1)
                             if ts[k + 1] - ts[k] > 0.75]
                    if check and len(tparts) != len(tcuts) + 1:
                        msgs.append("split_time_gaps disagrees with the "
                                    "current timestamps")
                new = (Rs, ps, ts)
            elif name == "read_derived":
                # derived quantities read on the live object (a cache behind
                # them would be populated here and must be refreshed later)
                d, L = o.distances, o.path_length
                if ts is not None:
                    if n >= 2:
                        o.speeds
                    o.get_infos(), o.get_statistics()
                steps = [float(np.linalg.norm(ps[k + 1] - ps[k]))
                         for k in range(n - 1)]
                if check and not common.close(
                        d, np.concatenate([[0.0], np.cumsum(steps)]),
                        mag * max(1, n)):
                    msgs.append("distances read differ from the model")
                new = (Rs, ps, ts)
            elif name in ("left", "right", "right_prop", "left_propflag"):
                T = T_SE3 if arg == "se3" else T_SIM3
                s = 1.0 if arg == "se3" else 2.0
                Rt, tt = T[:3, :3] / s, T[:3, 3]
                o.transform(T.copy(),
                            right_mul=name in ("right", "right_prop"),
                            propagate=name in ("right_prop", "left_propflag"))
                if name in ("left", "left_propflag"):
                    new = ([Rt @ R for R in Rs],
                           [s * (Rt @ p) + tt for p in ps], ts)
                elif name == "right":
                    new = ([R @ Rt for R in Rs],
                           [p + R @ tt for R, p in zip(Rs, ps)], ts)
                else:
                    # every relative motion D_i becomes D_i*T, the first
                    # pose is kept; with a similarity the chain is a product
                    # of similarities whose rotation blocks are normalised
                    P = [geom.pose(R, p) for R, p in zip(Rs, ps)]
                    out = [P[0]]
                    for k in range(n - 1):
                        D = geom.pose_inv(P[k]) @ P[k + 1]
                        out.append(out[-1] @ D @ T)
                    new = ([M[:3, :3] / np.cbrt(np.linalg.det(M[:3, :3]))
                            for M in out], [M[:3, 3] for M in out], ts)
            elif name == "scale":
                o.scale(arg)
                new = (Rs, [arg * p for p in ps], ts)
            elif name == "reduce":
                ids = [i for i in arg if i < n]
                may_refuse = False
                o.reduce_to_ids(np.array(ids, dtype=int)
                                if op % 2 else list(ids))
                new = ([Rs[i] for i in ids], [ps[i] for i in ids],
                       None if ts is None else [ts[i] for i in ids])
            elif name == "downsample":
                o.downsample(arg)
                if n <= arg:
                    ids = list(range(n))
                else:
                    # which indices count as "evenly spaced" is C11's
                    # subject: identify the kept poses, check the predicate,
                    # adopt them
                    vv = common.views(o)
                    ids = []
                    for k, M in enumerate(vv["poses"]):
                        hit = [i for i in range(n) if common.close(
                            M, geom.pose(Rs[i], ps[i]), mag) and
                            i > (ids[-1] if ids else -1)]
                        if not hit:
                            break
                        # (poses may coincide after earlier operations: take
                        # the admissible index closest to the ideal one)
                        ideal = k * (n - 1) / max(arg - 1, 1)
                        ids.append(min(hit, key=lambda i: abs(i - ideal)))
                    ok = (len(ids) == arg == len(vv["poses"]) and ids[0] == 0
                          and (arg < 2 or ids[-1] == n - 1) and all(
                              abs(i - k * (n - 1) / max(arg - 1, 1)) <= 1 + 1e-9
                              for k, i in enumerate(ids)))
                    if not ok:
                        if check:
                            msgs.append("downsample(%d) of %d poses kept %s: "
                                        "not min(N, count) evenly spaced poses "
                                        "including the first and the last" %
                                        (arg, n, ids))
                        ids = pl.downsample_ids(n, arg)
                new = ([Rs[i] for i in ids], [ps[i] for i in ids],
                       None if ts is None else [ts[i] for i in ids])
            elif name == "motion_filter":
                may_refuse = n < 2
                o.motion_filter(arg[0], arg[1], True)
                ids = model_motion_filter(Rs, ps, arg[0],
                                          math.radians(arg[1]))
                new = ([Rs[i] for i in ids], [ps[i] for i in ids],
                       None if ts is None else [ts[i] for i in ids])
            elif name == "crop":
                o.reduce_to_time_range(arg[0], arg[1])
                ids = [i for i, t in enumerate(ts) if arg[0] <= t <= arg[1]]
                new = ([Rs[i] for i in ids], [ps[i] for i in ids],
                       [ts[i] for i in ids])
            elif name in ("align", "align_scale_only"):
                ref = _ref(n)
                ref_snap = common.snapshot(ref) if check else None
                if name == "align":
                    with_scale, m = arg
                    only = False
                else:
                    with_scale, m, only = True, -1, True
                mm = n if m == -1 else min(m, n)
                x = np.array(ps[:mm]).T
                y = np.array(_ref_poses(n)[1][:mm]).T
                rank = geom.cross_cov_rank_safe(x, y) if mm >= 1 else 0
                may_refuse = rank < 2
                r, t, c = o.align(ref, correct_scale=with_scale and not only,
                                  correct_only_scale=only, n=m)
                if check and common.snapshot(ref) != ref_snap:
                    msgs.append("align modified the reference")
                h = geom.horn(x, y, with_scale)
                if check and rank >= 2 and h["gap"] > 1e-3 * h["lam"]:
                    # (t = mean_y - c R mean_x inherits the rounding of R
                    # times the size of the coordinates)
                    tsc = max(10.0, float(np.abs(x).max()),
                              float(np.abs(y).max()))
                    if not (common.close(r, h["R"]) and common.close(
                            t, h["t"], tsc) and abs(c - h["c"]) <= 1e-9 * h["c"]):
                        msgs.append("align returned a transformation that is "
                                    "not the least-squares optimum of the "
                                    "first n pairs")
                # documented effect with the *returned* parameters
                if only:
                    new = (Rs, [c * p for p in ps], ts)
                else:
                    new = ([r @ R for R in Rs], [c * (r @ p) + t for p in ps],
                           ts)
                if rank < 2:
                    # numerically degenerate configuration that was not
                    # refused: the returned parameters amplify rounding noise
                    # without bound, so the model cannot predict the poses;
                    # it adopts them (check_state still demands valid,
                    # mutually consistent views)
                    vv = common.views(o)
                    new = ([M[:3, :3] for M in vv["poses"]],
                           [M[:3, 3] for M in vv["poses"]], ts)
                label = "%s%s" % (name, "/degenerate" if rank < 2 else "")
            elif name == "align_origin":
                ref = _ref(n)
                T = o.align_origin(ref)
                P0 = geom.pose(Rs[0], ps[0])
                Te = geom.pose(REF_R[0], REF_P[0]) @ geom.pose_inv(P0)  # pose 0
                if check and not common.close(T, Te, 10):
                    msgs.append("align_origin returned a wrong transformation")
                new = ([Te[:3, :3] @ R for R in Rs],
                       [Te[:3, :3] @ p + Te[:3, 3] for p in ps], ts)
            elif name == "project":
                from evo.core.trajectory import Plane
                may_refuse = st.projected
                o.project(Plane(arg))
                nd = {"xy": 2, "xz": 1, "yz": 0}[arg]
                nps = []
                for p in ps:
                    q = np.array(p)
                    q[nd] = 0.0
                    nps.append(q)
                # orientation: must be a pure rotation about the normal; the
                # angle itself is C14's subject - adopt it after verifying
                got = [np.array(M[:3, :3]) for M in copy.deepcopy(o).poses_se3]
                axis = np.zeros(3)
                axis[nd] = 1.0
                if len(got) != n:
                    msgs.append("project changed the number of poses")
                    got = Rs
                for R in got:
                    if not geom.is_rotation(R) or not common.close(
                            R @ axis, axis):
                        msgs.append("projected orientation is not a pure "
                                    "rotation about the plane normal")
                        break
                new = (got, nps, ts)
                st.projected = True
            elif name == "deepcopy":
                st.obj = copy.deepcopy(o)
                new = (Rs, ps, ts)
            elif name == "rejected":
                bad = 0
                if arg == "project":
                    for plane in ("xy", None, 7):
                        try:
                            o.project(plane)
                        except Exception:
                            bad += 1
                    want = 3
                else:
                    try:
                        o.align(_ref(n + 1))   # reference of another length
                    except Exception:
                        bad += 1
                    want = 1
                if check and bad != want:
                    msgs.append("invalid %s call was accepted" % arg)
                if check and common.snapshot(o) != before:
                    msgs.append("rejected %s call changed the object" % arg)
                new = (Rs, ps, ts)
            else:
                raise AssertionError(name)
        except Exception as e:
            if not common.is_evo_exc(e):
                msgs.append("%s raised %s: %s" % (name, type(e).__name__, e))
                return st, msgs, label + "/crash"
            label += "/refused"
            if check:
                if not may_refuse:
                    msgs.append("%s was refused (%s) although it is "
                                "applicable" % (name, e))
                elif common.snapshot(o) != before:
                    msgs.append("%s was refused but changed the object" %
                                name)
            return st, msgs, label
        if name == "project" and may_refuse and check:
            msgs.append("second projection was not refused")
        st.Rs = [np.array(R) for R in new[0]]
        st.ps = [np.array(p, dtype=float) for p in new[1]]
        st.stamps = None if new[2] is None else list(new[2])
        if len(st.Rs) == 0:
            # an empty trajectory is a terminal state; nothing more to compare
            return st, msgs, label + "/empty"
        if check and not msgs:
            msgs = self.check_state(st)
        return st, msgs, label


class SystemDebugLog(System):
    """the same system while evo's logger is enabled for DEBUG - the state
    every CLI run (and every script that called log.configure_logging(), even
    with silent=True) is in; debug-only code paths read properties"""
    LOGLEVEL = "DEBUG"
    n_inits = 4

    def initial(self, i):
        _loglevel(self.LOGLEVEL)
        return System.initial(self, i)

    def step(self, st, op, check=True):
        _loglevel(self.LOGLEVEL)
        try:
            return System.step(self, st, op, check)
        finally:
            _loglevel("CRITICAL")


def _loglevel(name):
    import logging
    logging.getLogger("evo").setLevel(getattr(logging, name))


class SystemLarge(System):
    """the same alphabet on 16-pose objects (size-dependent index arithmetic,
    e.g. in down-sampling, is invisible on 4 poses)"""
    n_inits = 2
    N = 16

    def initial(self, i):
        rot = geom.rot24()
        Rs = [rot[(5 * k + 3) % 24] for k in range(self.N)]
        ps = [np.array([float(k), float((k * k) % 7), float((3 * k) % 5)])
              for k in range(self.N)]
        ts = [0.5 * k + (0.5 if k > 9 else 0.0) for k in range(self.N)]
        mode = "se3" if i % 2 == 0 else "quat"
        return State(common.make_traj(Rs, ps, ts, mode), Rs, ps, ts)


def model_motion_filter(Rs, ps, d, a):
    ids = [0]
    last = 0
    path = 0.0
    for i in range(1, len(Rs)):
        path += float(np.linalg.norm(ps[i] - ps[i - 1]))
        ang = geom.rot_angle(Rs[last].T @ Rs[i])
        if path >= d or ang >= a:
            ids.append(i)
            last = i
            path = 0.0
    return ids


def run(ctx):
    depth = ctx.pick(4, 5)
    acc = hist.bfs(ctx, FACTORY, depth)
    big = hist.bfs(ctx, "mc.checks.c08.SystemLarge", ctx.pick(2, 3))
    dbg = hist.bfs(ctx, "mc.checks.c08.SystemDebugLog", ctx.pick(3, 4))
    st = acc.counters["states"] + big.counters["states"] + \
        dbg.counters["states"]
    acc.merge(big)
    acc.merge(dbg)
    acc.bounds["max_depth_completed_debug_logging"] = ctx.pick(3, 4)
    acc.counters["states"] = st
    acc.bounds["max_depth_completed"] = depth
    acc.bounds["max_depth_completed_16_poses"] = ctx.pick(2, 3)
    acc.counters["evaluations"] = acc.counters["transitions"]
    acc.rule = (
        "BFS over all histories of depth <= %d over %d operations (%s) from "
        "8 initial objects: {PosePath3D, PoseTrajectory3D} x {list of matrices, "
        "one (n,4,4) array, "
        "positions+quaternions} with 4 poses, a single-pose trajectory and a "
        "two-pose path, and to depth 2 (3) from two "
        "16-pose trajectories, and to depth 3 (4) with evo's logger enabled "
        "for DEBUG; states de-duplicated by (class, which "
        "cached views exist, projected flag, pose content rounded to 1e-9, "
        "timestamps); after every transition all views, check() and derived "
        "quantities are compared with the lock-step model. non-trivial = "
        "transitions reaching a state with >= 2 cached views" %
        (depth, len(OPS), ", ".join(System().describe(k)
                                    for k in range(len(OPS)))))
    acc.assumptions = [
        "canonicalisation: two histories are merged when their observable "
        "pose content agrees to 1e-9 and the same cached views exist; the "
        "future of a trajectory object depends on nothing else (its "
        "attributes are exactly the three caches, timestamps, meta, "
        "_projected)",
        "orientation after projecting a non-planar pose: verified to be a "
        "pure rotation about the normal, angle adopted (C14 decides it)",
    ]
    return acc


def replay(part, case):
    return hist.replay_history(case.get("factory", FACTORY), case["init"],
                               case["ops"])
