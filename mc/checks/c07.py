"""
C07 - readers/writers follow the published file conventions; malformed files
are rejected.  E1: all files of <= 3 rows over a row grammar (valid spellings,
comments, one defect kind at one position) x line ending x BOM x path/handle,
for TUM, KITTI and EuRoC; transform files; writer -> independent parser.
"""
import io
import itertools
import json
import math
import os
import pathlib
import tempfile

import numpy as np

from mc import common
from mc.engine.core import Acc, pmap_acc, shard
from mc.refmodel import files as rfiles
from mc.refmodel import geom

NCOLS = {"tum": 8, "kitti": 12, "euroc": 17}
DELIM = {"tum": " ", "kitti": " ", "euroc": ","}
SPELL = [lambda v: repr(v), lambda v: "%.18e" % v,
         lambda v: ("+" if v >= 0 else "") + repr(v),
         lambda v: ("%.17E" % v)]


def valid_fields(fmt, rowid, spelling):
    """a well-formed data row with distinctive values"""
    n = NCOLS[fmt]
    if fmt == "tum":
        q = geom.rot_to_quat_wxyz(geom.rodrigues((1, 2, 3), 0.4 + rowid))
        vals = [1.5 + rowid, 1.0 + rowid, -2.5 * (rowid + 1), 0.125 * rowid,
                q[1], q[2], q[3], q[0]]
    elif fmt == "kitti":
        R = geom.rodrigues((3, 1, 2), 0.3 + 0.5 * rowid)
        p = [10.0 + rowid, -20.5 - rowid, 0.25 * (rowid + 1)]
        vals = list(np.hstack([R, np.array(p).reshape(3, 1)]).flatten())
    else:
        q = geom.rot_to_quat_wxyz(geom.rodrigues((1, -1, 2), 0.7 + rowid))
        vals = [1403636579763555584 + 5000000 * rowid, 4.5 + rowid, -1.25,
                0.5 * rowid] + list(q) + [0.01 * k for k in range(9)]
    if spelling == 2:
        # a row that is stamped EARLIER than the rows before it (keyframe
        # dumps, concatenated logs): still a well-formed row, in its place
        spelling = 0
        if fmt == "tum":
            vals[0] = 1.25 - rowid
        elif fmt == "euroc":
            vals[0] = 1403636579763555584 - 5000000 * (rowid + 1)
    out = []
    for k, v in enumerate(vals[:n]):
        if fmt == "euroc" and k == 0:
            out.append(str(int(v)))
        else:
            s = SPELL[(spelling + k) % len(SPELL)](float(v))
            out.append(s)
    if spelling == 1 and fmt != "euroc":
        out[1] = ".5"
        out[2] = "-0.0"
        out[3] = "1e0"
    return out


def row_kinds(fmt):
    n = NCOLS[fmt]
    kinds = [("valid", 0), ("valid", 1), ("valid", 2), ("comment", None),
             ("few", None),
             ("many", None), ("trailing", None), ("doubled", None),
             ("blank", None)]
    for c in sorted({0, 1, 3, 4, n - 1} | ({7, 8, 12} if fmt == "euroc"
                                          else set())):
        kinds.append(("nonnum", c))
    if fmt == "euroc":
        kinds.append(("short", None))
    # rows with far too few fields (1, 2, 4)
    for k in (1, 2, 4):
        kinds.append(("nfields", k))
    # defective rows that contain the comment character somewhere
    kinds.append(("inline-hash", None))
    kinds.append(("hash-field", 1))
    kinds.append(("hash-suffix", n - 1))
    return kinds


def render_row(fmt, kind, rowid):
    d = DELIM[fmt]
    name, arg = kind
    if name == "comment":
        return "# a comment line %d" % rowid, None
    if name == "blank":
        return "", "blank"
    f = valid_fields(fmt, rowid, arg if name == "valid" else 0)
    if name == "valid":
        return d.join(f), "valid"
    if name == "few":
        # one inner field missing; for EuRoC (>= 8 columns, extra columns
        # unspecified) this is only a defect relative to the other rows
        return d.join(f[:3] + f[4:]), ("cols16" if fmt == "euroc"
                                       else "defect")
    if name == "many":
        return d.join(f + ["1.0"]), ("cols18" if fmt == "euroc" else "defect")
    if name == "short":
        return d.join(f[:7]), "defect"
    if name == "trailing":
        return d.join(f) + d, "defect"
    if name == "doubled":
        return d.join(f[:2]) + d + d + d.join(f[2:]), "defect"
    if name == "nfields":
        return d.join(f[:arg]), "defect"
    if name == "inline-hash":
        return d.join(f) + d + "#" + d + "lost", "defect"
    if name == "hash-field":
        g = list(f)
        g[arg] = "#N/A"
        return d.join(g), "defect"
    if name == "hash-suffix":
        g = list(f)
        g[arg] = g[arg] + "#"
        return d.join(g), "defect"
    if name == "nonnum":
        g = list(f)
        g[arg] = "abc"
        return d.join(g), "defect"
    raise KeyError(name)


def load(fmt, target):
    from evo.tools import file_interface as fi
    if fmt == "tum":
        return fi.read_tum_trajectory_file(target)
    if fmt == "kitti":
        return fi.read_kitti_poses_file(target)
    return fi.read_euroc_csv_trajectory(target)


def judge_file(fmt, kinds, eol, bom, via, wd):
    from evo.tools.file_interface import FileInterfaceException
    lines, classes = [], []
    for i, k in enumerate(kinds):
        text, cls = render_row(fmt, k, i)
        lines.append(text)
        classes.append(cls)
    # (an end-of-line token ending in "!" means: no line end after the last
    # row - the file ends with its last data character)
    final = not eol.endswith("!")
    eol = eol.rstrip("!")
    if not final and lines and lines[-1] == "":
        # an empty last row without line end is no row at all: the text is
        # the preceding rows, each ended by a line end
        lines.pop()
        classes.pop()
        final = True
    text = eol.join(lines) + (eol if final else "")
    data_classes = [c for c in classes if c is not None]
    if fmt == "euroc":
        # numeric rows with >= 8 columns; all rows must agree in their
        # number of columns (otherwise columns are shifted in some row)
        wellformed = bool(data_classes) and all(
            c in ("valid", "cols16", "cols18") for c in data_classes) and \
            len(set(data_classes)) == 1
    else:
        wellformed = bool(data_classes) and all(c == "valid"
                                                for c in data_classes)
    path = os.path.join(wd, "f.%s" % fmt)
    with open(path, "wb") as f:
        f.write((b"\xef\xbb\xbf" if bom else b"") + text.encode("utf-8"))
    try:
        if via == "handle":
            with open(path, newline=None) as fh:
                obj = load(fmt, fh)
        elif via == "path":
            obj = load(fmt, pathlib.Path(path))
        else:
            obj = load(fmt, path)
        exc = None
    except FileInterfaceException as e:
        obj, exc = None, e
    except Exception as e:  # any other exception type is not evo's error
        return ["%s raised %s instead of evo's file-format error: %s" %
                (fmt, type(e).__name__, str(e)[:100])], wellformed
    if not wellformed:
        if exc is None:
            return ["malformed %s file was loaded (%d poses): %r" %
                    (fmt, obj.num_poses, text[:200])], wellformed
        return [], wellformed
    if exc is not None:
        return ["well-formed %s file was rejected: %s" % (fmt, exc)], True
    # loaded: compare with the independent parser
    clean = text.replace("\r\n", "\n")
    msgs = []
    if fmt == "kitti":
        Ms = rfiles.parse_kitti(clean)
        got = [np.array(p) for p in obj.poses_se3]
        if len(got) != len(Ms):
            return ["loaded %d poses, file has %d" % (len(got), len(Ms))], True
        for a, b in zip(got, Ms):
            if not common.same_bits(a, b):
                msgs.append("KITTI pose matrix differs from the numbers in "
                            "the file (row-major 3x4)")
                break
    else:
        st, ps, qs = (rfiles.parse_tum if fmt == "tum" else
                      rfiles.parse_euroc)(clean)
        if obj.num_poses != len(st):
            return ["loaded %d poses, file has %d" % (obj.num_poses,
                                                       len(st))], True
        if fmt == "tum":
            if not common.same_bits(obj.timestamps, st):
                msgs.append("timestamps differ from the file")
        else:
            if np.any(np.abs(np.array(obj.timestamps) - st) > np.spacing(st)):
                msgs.append("EuRoC ns -> s conversion off by more than 1 ulp")
        if not common.same_bits(obj.positions_xyz, ps):
            msgs.append("positions are not the numbers of the tx ty tz / "
                        "p_x p_y p_z columns")
        if not common.same_bits(obj.orientations_quat_wxyz, qs):
            msgs.append("quaternion components in the wrong slots "
                        "(expected w,x,y,z = %s)" % qs[0].tolist())
        for P, q, p in zip(obj.poses_se3, qs, ps):
            if not common.close(P[:3, :3], geom.quat_wxyz_to_rot(q)) or \
                    not common.close(P[:3, 3], p, 100):
                msgs.append("pose matrix does not follow the quaternion "
                            "(w,x,y,z) -> rotation convention")
                break
    return msgs, True


def shard_files(arg):
    fmt, firsts, maxrows, vias = arg
    wd = tempfile.mkdtemp(dir=os.getcwd(), prefix="c07_")
    kinds = row_kinds(fmt)
    acc = Acc()
    for f in firsts:
        for n in range(1, maxrows + 1):
            for rest in itertools.product(range(len(kinds)), repeat=n - 1):
                idx = (f, ) + rest
                ks = [kinds[i] for i in idx]
                for eol, bom, via in vias:
                    msgs, wf = judge_file(fmt, ks, eol, bom, via, wd)
                    acc.count("evaluations")
                    acc.count("transitions")
                    acc.outcome("%s:%s" % (fmt, "well-formed" if wf
                                           else "malformed"))
                    ndata = sum(1 for k in ks if k[0] not in ("comment", ))
                    if ndata >= 2:
                        acc.count("nontrivial")
                    if msgs:
                        case = {"fmt": fmt, "rows": [list(k) for k in ks],
                                "eol": eol, "bom": bom, "via": via}
                        acc.violation("files", "%s %s: %s" %
                                      (fmt, [k[0] for k in ks],
                                       "; ".join(msgs[:2])), case,
                                      {"kind": "malformed-loaded" if not wf
                                       else "wellformed-wrong", "fmt": fmt})
                    elif acc.counters["evaluations"] % 5003 == 1:
                        acc.sample({"fmt": fmt, "rows": [k[0] for k in ks],
                                    "eol": repr(eol), "bom": bom, "via": via})
    return acc


# -------------------------------------------------- empty / comment-only
def shard_empty(arg):
    from evo.tools.file_interface import FileInterfaceException
    wd = tempfile.mkdtemp(dir=os.getcwd(), prefix="c07e_")
    acc = Acc()
    for fmt in NCOLS:
        for text in ("", "\n", "# only a comment\n", "# a\n# b\n"):
            for via in ("str", "handle"):
                path = os.path.join(wd, "e.%s" % fmt)
                with open(path, "w") as f:
                    f.write(text)
                acc.count("evaluations")
                acc.count("transitions")
                try:
                    if via == "handle":
                        with open(path) as fh:
                            load(fmt, fh)
                    else:
                        load(fmt, path)
                    ok = True
                except FileInterfaceException:
                    ok = False
                except Exception as e:
                    acc.violation("files", "%s file without data rows raised "
                                  "%s" % (fmt, type(e).__name__),
                                  {"fmt": fmt, "text": text, "via": via,
                                   "empty": True}, {"kind": "empty"})
                    continue
                if ok:
                    acc.violation("files", "%s file without data rows (%r) "
                                  "was loaded" % (fmt, text),
                                  {"fmt": fmt, "text": text, "via": via,
                                   "empty": True}, {"kind": "empty"})
    return acc


# ------------------------------------------------------ writer conventions
def shard_writers(arg):
    from evo.tools import file_interface as fi
    wd = tempfile.mkdtemp(dir=os.getcwd(), prefix="c07w_")
    acc = Acc()
    hard = common.rot_hard(int(os.environ.get("VERIF_SEED", "0") or 0), 3)
    for n in (1, 2, 5, len(hard)):
        for mode in ("quat", "se3", "quat+read"):
            Rs = [geom.rodrigues((1 + k, 2, 3 - k), 0.3 + 0.9 * k)
                  for k in range(n)]
            if n == len(hard):
                # the hard rotation alphabet: angles within 1e-12 of 0 and
                # pi, exact half and quarter turns about the axes, generic
                Rs = list(hard)
            ps = [np.array([1.0 + k, -2.0 * k, 0.5 + 0.25 * k])
                  for k in range(n)]
            ts = [1.5e9 + 0.5 * k for k in range(n)]
            t = common.make_traj(Rs, ps, ts, mode)
            p = os.path.join(wd, "w.tum")
            fi.write_tum_trajectory_file(p, t)
            acc.count("evaluations", 2)
            acc.count("transitions", 2)
            acc.count("nontrivial", 2)
            with open(p) as f:
                st, pp, qq = rfiles.parse_tum(f.read())
            msgs = []
            if not common.same_bits(st, ts) or not common.close(
                    pp, np.array(ps), 10):
                msgs.append("written TUM file: stamps/positions not in the "
                            "timestamp tx ty tz columns")
            for q, R in zip(qq, Rs):
                if not common.close(geom.quat_wxyz_to_rot(q), R):
                    msgs.append("written TUM file: quaternion not in qx qy qz "
                                "qw order")
                    break
            p = os.path.join(wd, "w.kitti")
            fi.write_kitti_poses_file(p, t)
            with open(p) as f:
                Ms = rfiles.parse_kitti(f.read())
            for M, R, pos in zip(Ms, Rs, ps):
                if not common.close(M[:3, :3], R) or not common.close(
                        M[:3, 3], pos, 10):
                    msgs.append("written KITTI file is not the row-major 3x4 "
                                "pose matrix")
                    break
            if msgs:
                acc.violation("writers", "; ".join(msgs),
                              {"n": n, "mode": mode}, {"kind": "writer"})
    return acc


# ---------------------------------------------------------- transform files
def transform_cases():
    R = geom.rodrigues((1, -2, 3), 0.8)
    t = np.array([1.5, -2.25, 3.0])
    cases = []
    for s in (1.0, 0.5, 2.0):
        cases.append(("valid s=%g" % s, geom.sim_matrix(R, t, s), True))
    cases.append(("reflection", geom.sim_matrix(R @ np.diag([1, 1, -1.0]), t,
                                                1.0), False))
    cases.append(("scaled reflection", geom.sim_matrix(-R, t, 2.0), False))
    sh = np.eye(3)
    sh[0, 1] = 0.1
    cases.append(("sheared", geom.sim_matrix(R @ sh, t, 1.0), False))
    cases.append(("one axis scaled", geom.sim_matrix(
        R @ np.diag([1, 1, 1.5]), t, 1.0), False))
    # ... and the same defects at a small overall scale (entries ~1e-4: far
    # below any absolute tolerance, still no scaled rotation)
    for sc in (1e-4, 1e-2):
        cases.append(("valid s=%g" % sc, geom.sim_matrix(R, t, sc), True))
        cases.append(("sheared at scale %g" % sc,
                      geom.sim_matrix(R @ sh, t, sc), False))
        cases.append(("one axis scaled at scale %g" % sc, geom.sim_matrix(
            R @ np.diag([1, 1, 1.5]), t, sc), False))
        cases.append(("arbitrary block at scale %g" % sc, geom.sim_matrix(
            np.array([[1.0, 0.4, 0.0], [0.0, 1.0, 0.7], [0.3, 0.0, 1.0]]), t,
            sc), False))
    M = geom.sim_matrix(R, t, 1.0)
    M2 = M.copy()
    M2[3] = [0, 0, 0, 2.0]
    cases.append(("bottom row", M2, False))
    M3 = M.copy()
    M3[3] = [0, 0.5, 0, 1.0]
    cases.append(("bottom row 2", M3, False))
    cases.append(("3x4", M[:3, :], False))
    cases.append(("4x5", np.hstack([M, np.ones((4, 1))]), False))
    return cases, R, t


def shard_transforms(arg):
    from evo.tools import file_interface as fi
    wd = tempfile.mkdtemp(dir=os.getcwd(), prefix="c07t_")
    acc = Acc()
    cases, R, t = transform_cases()

    def attempt(path, valid, expect, label):
        acc.count("evaluations")
        acc.count("transitions")
        acc.count("nontrivial")
        try:
            M = fi.load_transform(path)
            exc = None
        except fi.FileInterfaceException as e:
            M, exc = None, e
        except Exception as e:
            acc.violation("transform", "%s raised %s instead of evo's "
                          "file-format error" % (label, type(e).__name__),
                          {"label": label}, {"kind": "transform"})
            return
        if valid:
            if exc is not None:
                acc.violation("transform", "valid transform (%s) rejected: %s"
                              % (label, exc), {"label": label},
                              {"kind": "transform"})
            elif not (common.same_bits(M, expect) if "json" not in label
                      else common.close(M, expect, 10)):
                acc.violation("transform", "%s loaded to a different matrix" %
                              label, {"label": label}, {"kind": "transform"})
        elif exc is None:
            acc.violation("transform", "invalid transform (%s) was loaded" %
                          label, {"label": label}, {"kind": "transform"})

    for name, M, valid in cases:
        p = os.path.join(wd, "T.npy")
        np.save(p, M)
        attempt(p, valid, M, name + " / npy")
        p = os.path.join(wd, "T.txt")
        np.savetxt(p, M)
        attempt(p, valid, M, name + " / txt")
        # the same text matrix in other whitespace layouts (a text matrix is
        # whitespace separated: fixed-width columns, tabs, indentation,
        # trailing blanks, Windows line ends, no final newline)
        rows = [[repr(float(v)) for v in row] for row in M]
        layouts = {
            "padded": "\n".join(" ".join("%26s" % v for v in r)
                                for r in rows) + "\n",
            "tabs": "\n".join("\t".join(r) for r in rows) + "\n",
            "indented+trailing": "\n".join("  " + " ".join(r) + "  "
                                           for r in rows) + "\n",
            "crlf, no final newline": "\r\n".join(" ".join(r) for r in rows),
            "comment line": "# T\n" + "\n".join(" ".join(r)
                                               for r in rows) + "\n",
        }
        for lname, text in layouts.items():
            with open(p, "w", newline="") as f:
                f.write(text)
            attempt(p, valid, M, name + " / txt " + lname)
    q = geom.rot_to_quat_wxyz(R)
    for s in (None, 0.5, 2.0):
        d = {"x": t[0], "y": t[1], "z": t[2], "qw": q[0], "qx": q[1],
             "qy": q[2], "qz": q[3]}
        if s is not None:
            d["scale"] = s
        p = os.path.join(wd, "T.json")
        with open(p, "w") as f:
            json.dump(d, f, indent=1)
        attempt(p, True, geom.sim_matrix(R, t, s or 1.0),
                "json scale=%s" % s)
        for bad_scale in (0, 0.0, -0.0, -1.0, -2):
            d3 = dict(d)
            d3["scale"] = bad_scale
            with open(p, "w") as f:
                json.dump(d3, f)
            attempt(p, False, None, "json scale=%r" % bad_scale)
        for missing in ("qw", "x"):
            d2 = {k: v for k, v in d.items() if k != missing}
            with open(p, "w") as f:
                json.dump(d2, f)
            attempt(p, False, None, "json without %s" % missing)
    return acc


VIAS_FULL = [(eol, bom, via) for eol in ("\n", "\r\n", "\n!", "\r\n!")
             for bom, via in ((False, "str"), (False, "path"),
                              (False, "handle"), (True, "str"))]
VIAS_QUICK = [("\n", False, "str"), ("\r\n", True, "str"),
              ("\n", False, "handle"), ("\r\n", False, "path"),
              ("\n!", False, "str"), ("\r\n!", False, "handle")]


def run(ctx):
    jobs = []
    for fmt in NCOLS:
        nk = len(row_kinds(fmt))
        for f in range(nk):
            jobs.append((fmt, [f], 3, VIAS_FULL if ctx.thorough
                         else VIAS_QUICK))
    acc = pmap_acc(ctx, __name__, "shard_files", jobs)
    acc.merge(pmap_acc(ctx, __name__, "shard_empty", [0]))
    acc.merge(pmap_acc(ctx, __name__, "shard_writers", [0]))
    acc.merge(pmap_acc(ctx, __name__, "shard_transforms", [0]))
    acc.counters["states"] = acc.counters["evaluations"]
    acc.rule = (
        "every file of 1..3 rows over the row grammar {valid (4 float "
        "spellings incl. .5, -0.0, 1e0, +x, 1.7E+00), comment, one inner "
        "field missing, extra field, trailing delimiter, doubled delimiter, "
        "blank row, non-numeric field at 5-8 column positions} for TUM, KITTI "
        "and 17-column EuRoC x %s; files without data rows; evo-written "
        "TUM/KITTI files parsed by an independent parser; transform files "
        "{npy, txt, json} x {SE(3), Sim(3) s=0.5/2} and 8 invalid classes + "
        "missing json keys. non-trivial = files with >= 2 data rows" %
        ("{LF,CRLF} x {str, Path, handle, BOM+str}" if ctx.thorough else
         "4 line-ending/BOM/handle combinations"))
    return acc


def replay(part, case):
    wd = tempfile.mkdtemp(dir=os.getcwd(), prefix="c07r_")
    if part == "files":
        if case.get("empty"):
            a = shard_empty(0)
            return [v["msg"] for v in a.violations]
        kinds = [tuple(k) for k in case["rows"]]
        return judge_file(case["fmt"], kinds, case["eol"], case["bom"],
                          case["via"], wd)[0]
    if part == "writers":
        return [v["msg"] for v in shard_writers(0).violations]
    if part == "transform":
        return [v["msg"] for v in shard_transforms(0).violations
                if v["case"] == case]
    return []
