"""
C06 - writing and re-reading any supported format is lossless.

E1: a float alphabet F of ~750 values that need up to 17 significant digits
(mantissa patterns x binary exponents covering 1e-300..1e300, epoch stamps
with nanosecond fractions, +-0.0) is pushed through every column slot of
every format (Latin-square rotation) for every writer x reader variant; the
comparison is bit-exact.
"""
import io
import itertools
import math
import os
import pathlib
import tempfile

import numpy as np

from mc import common
from mc.engine.core import Acc, pmap_acc
from mc.refmodel import geom


def alphabet():
    base = [1.0, float(np.nextafter(1.0, 2.0)), float(np.nextafter(2.0, 1.0)),
            4.0 / 3.0, 0.30000000000000004 * 4, math.pi / 2,
            1.7976931348623157, 1.1, 1.2345678901234567]
    F = []
    for e in range(-996, 997, 50):
        for m in base:
            v = math.ldexp(m, e)
            F.append(v)
            F.append(-v)
    F += [0.0, -0.0, 1e-300, 1e300, -1e300, 0.1, 0.2, 0.30000000000000004,
          1.0 / 3.0, 123456789.12345679, 5.4e6 + 0.5, 5e5 + 0.25]
    F += epoch_stamps()
    return F


def epoch_stamps():
    out = []
    for b in (1.5e9, 1700000001.0, 1403636579.0):
        for k in (0, 1, 2, 7, 123456789, 999999999, 6511000, 763555555):
            out.append(b + k * 1e-9)
    out += [1700000001.006511, 1403636579.763555527]
    return sorted(set(out))


def unit_quats(n):
    qs = []
    for k in range(n):
        a = 0.1 + 0.7 * k
        ax = np.array([math.sin(k + 1.0), math.cos(0.3 * k), 0.5 + 0.01 * k])
        q = geom.rot_to_quat_wxyz(geom.rodrigues(ax, a))
        if k % 3 == 0:
            q = -q
        qs.append(q)
    return np.array(qs)


_START = [0]


def latin(F, n, slots, stride=7):
    """row k, slot j -> F[start + k + j*stride]; _START rotates which value
    comes FIRST (first row / first field of a file)"""
    s0 = _START[0]
    return np.array([[F[(s0 + k + j * stride) % len(F)] for j in range(slots)]
                     for k in range(n)])


def make_tum_traj(F, n, mode):
    from evo.core.trajectory import PoseTrajectory3D
    L = latin(F, n, 4)
    stamps = L[:, 0].copy()
    xyz = L[:, 1:4].copy()
    quat = unit_quats(n)
    if mode == "quat":
        return PoseTrajectory3D(xyz, quat, stamps)
    poses = [np.asfortranarray(geom.pose(geom.quat_wxyz_to_rot(q), p))
             if k % 2 else geom.pose(geom.quat_wxyz_to_rot(q), p)
             for k, (q, p) in enumerate(zip(quat, xyz))]
    return PoseTrajectory3D(poses_se3=poses, timestamps=stamps)


def make_path(F, n, mode):
    from evo.core.trajectory import PosePath3D
    L = latin(F, n, 3, stride=11)
    quat = unit_quats(n)
    if mode == "quat":
        return PosePath3D(L.copy(), quat)
    # (every second matrix in column-major memory layout, as matrices from
    # Eigen-based bindings or a transposed view are: same values)
    return PosePath3D(poses_se3=[
        np.asfortranarray(geom.pose(geom.quat_wxyz_to_rot(q), p))
        if k % 2 else geom.pose(geom.quat_wxyz_to_rot(q), p)
        for k, (q, p) in enumerate(zip(quat, L))])


def diff_bits(a, b, what):
    a = np.asarray(a, dtype=float)
    b = np.asarray(b, dtype=float)
    if a.shape != b.shape:
        return ["%s: shape %s became %s" % (what, a.shape, b.shape)]
    if a.tobytes() != b.tobytes():
        bad = np.argwhere(a.view(np.uint64).reshape(a.shape) !=
                          b.view(np.uint64).reshape(b.shape)) \
            if a.flags["C_CONTIGUOUS"] and b.flags["C_CONTIGUOUS"] else []
        ex = ""
        if len(bad):
            i = tuple(bad[0])
            ex = " e.g. [%s] %r -> %r" % (i, float(a[i]), float(b[i]))
        return ["%s: %d of %d values changed%s" %
                (what, len(bad), a.size, ex)]
    return []


def _target(kind, wd, name):
    p = os.path.join(wd, name)
    if kind == "str":
        return p, p
    if kind == "path":
        return pathlib.Path(p), pathlib.Path(p)
    return None, p  # handle


def run_tum(F, n, mode, wkind, rkind, wd):
    from evo.tools import file_interface as fi
    t = make_tum_traj(F, n, mode)
    exp = (np.array(t.timestamps), np.array(t.positions_xyz),
           np.array(t.orientations_quat_wxyz))
    tgt, p = _target(wkind, wd, "t.tum")
    if os.path.exists(p):
        os.remove(p)
    if wkind == "handle":
        with open(p, "w") as f:
            # (confirm_overwrite is meaningless for a handle: no question,
            # but the data must be written)
            fi.write_tum_trajectory_file(f, t, confirm_overwrite=n % 2 == 1)
    else:
        fi.write_tum_trajectory_file(tgt, t)
    if rkind == "handle":
        with open(p) as f:
            r = fi.read_tum_trajectory_file(f)
    else:
        r = fi.read_tum_trajectory_file(_target(rkind, wd, "t.tum")[0])
    msgs = []
    if r.num_poses != n:
        return ["TUM: %d poses became %d" % (n, r.num_poses)]
    msgs += diff_bits(exp[0], r.timestamps, "TUM timestamps")
    msgs += diff_bits(exp[1], r.positions_xyz, "TUM positions")
    if mode == "quat":
        msgs += diff_bits(exp[2], r.orientations_quat_wxyz, "TUM quaternions")
    else:
        # orientation came from matrices: the quaternion evo derived is what
        # was written; it must come back bit-exactly
        msgs += diff_bits(exp[2], r.orientations_quat_wxyz,
                          "TUM quaternions (derived)")
    return msgs


def run_kitti(F, n, mode, wkind, rkind, wd):
    from evo.tools import file_interface as fi
    t = make_path(F, n, mode)
    exp = np.array([np.array(p) for p in t.poses_se3])
    tgt, p = _target(wkind, wd, "t.kitti")
    if os.path.exists(p):
        os.remove(p)
    if wkind == "handle":
        with open(p, "w") as f:
            fi.write_kitti_poses_file(f, t, confirm_overwrite=n % 2 == 1)
    else:
        fi.write_kitti_poses_file(tgt, t)
    if rkind == "handle":
        with open(p) as f:
            r = fi.read_kitti_poses_file(f)
    else:
        r = fi.read_kitti_poses_file(_target(rkind, wd, "t.kitti")[0])
    if r.num_poses != n:
        return ["KITTI: %d poses became %d" % (n, r.num_poses)]
    return diff_bits(exp, np.array([np.array(p) for p in r.poses_se3]),
                     "KITTI pose matrices")


# text values of a result's info (names derived from file names: anything a
# file name can hold, including bytes that are not valid UTF-8, which Python
# represents as lone surrogates)
INFO_STRS = [
    "ëst/é.txt", os.fsdecode(b"est_caf\xe9.txt"), "", "tab\there \"q\" \\",
    "\U0001F600 astral", "nul\x00ctl\x1f", "\ud800 lone high", "x" * 300,
]


def run_result(F, n, with_traj, kind, wd, variant):
    from evo.core.result import Result
    from evo.tools import file_interface as fi
    r = Result()
    vals = [F[(3 * k + variant) % len(F)] for k in range(24)]
    r.add_stats({"rmse": vals[0], "mean": vals[1], "std": vals[2],
                 "min": vals[3], "max": vals[4], "sse": vals[5],
                 "median": float(np.float64(vals[6]))})
    r.add_info({"title": "APE w.r.t. translation part (m)\n(ünïcödé ✓ 測試)",
                "label": "APE (m)",
                "est_name": INFO_STRS[variant % len(INFO_STRS)],
                "value": vals[7],
                "ref_name": "ref"})
    L = latin(F, n, 2, stride=5)
    r.add_np_array("error_array", L[:, 0].copy())
    r.add_np_array("timestamps", L[:, 1].copy())
    r.add_np_array("empty", np.array([]))
    r.add_np_array("error_array.v2", L[:, 1].copy() * 0.5)
    r.add_np_array("seconds.from.start", L[:, 0].copy())
    r.add_np_array("alignment_transformation_sim3",
                   latin(F, 4, 4, stride=3).copy())
    trajs = {}
    if with_traj:
        trajs["ref"] = make_tum_traj(F, n, "quat") if kind == "traj" else \
            make_path(F, n, "se3")
        trajs["est"] = make_tum_traj(F, max(1, n - 1), "se3") \
            if kind == "traj" else make_path(F, max(1, n // 2), "quat")
        trajs["third"] = make_tum_traj(F, max(1, n // 3), "quat") \
            if kind == "traj" else make_path(F, 1, "se3")
        # evo_ape / evo_rpe store the trajectories under their file names
        trajs["gt.txt"] = trajs.pop("ref")
        trajs["est.v2.tum"] = trajs.pop("est")
        for k, t in trajs.items():
            r.add_trajectory(k, t)
    p = os.path.join(wd, "r.zip")
    if os.path.exists(p):
        os.remove(p)
    if variant % 4 == 3:
        with open(p, "wb") as fh:
            fi.save_res_file(fh, r, confirm_overwrite=True)
    else:
        target = [p, pathlib.Path(p)][variant % 2]
        fi.save_res_file(target, r)
    back = fi.load_res_file([pathlib.Path(p), p][variant % 2],
                            load_trajectories=True)
    msgs = []
    if back.info != r.info:
        msgs.append("result info changed: %r" % (
            {k: (r.info.get(k), back.info.get(k)) for k in r.info
             if r.info.get(k) != back.info.get(k)}, ))
    for k, v in r.stats.items():
        if k not in back.stats or np.float64(back.stats[k]).tobytes() != \
                np.float64(v).tobytes():
            msgs.append("statistic %s: %r -> %r" % (k, v, back.stats.get(k)))
    if set(back.np_arrays) != set(r.np_arrays):
        msgs.append("array names changed: %s" % sorted(back.np_arrays))
    else:
        for k, v in r.np_arrays.items():
            msgs += diff_bits(v, back.np_arrays[k], "array " + k)
    if with_traj:
        if set(back.trajectories) != set(trajs):
            msgs.append("stored trajectories %s" % sorted(back.trajectories))
        else:
            for k, t in trajs.items():
                b = back.trajectories[k]
                if type(b) is not type(t):
                    msgs.append("trajectory %s came back as %s" %
                                (k, type(b).__name__))
                    continue
                if b.num_poses != t.num_poses:
                    msgs.append("trajectory %s: %d poses -> %d" %
                                (k, t.num_poses, b.num_poses))
                    continue
                if kind == "traj":
                    msgs += diff_bits(t.timestamps, b.timestamps,
                                      k + " timestamps")
                    msgs += diff_bits(t.positions_xyz, b.positions_xyz,
                                      k + " positions")
                    msgs += diff_bits(t.orientations_quat_wxyz,
                                      b.orientations_quat_wxyz,
                                      k + " quaternions")
                else:
                    msgs += diff_bits(np.array(t.poses_se3),
                                      np.array(b.poses_se3), k + " matrices")
    elif back.trajectories:
        msgs.append("trajectories appeared in a result saved without them")
    return msgs


def run_df(F, n, mode, timed, stamps=None):
    from evo.core.trajectory import PosePath3D, PoseTrajectory3D
    from evo.tools import pandas_bridge as pb
    t = make_tum_traj(F, n, mode) if timed else make_path(F, n, mode)
    if stamps is not None:
        t.timestamps = np.array(stamps, dtype=float)
    # DataFrame index must be usable: keep the stamps as they are
    df = pb.trajectory_to_df(t)
    msgs = []
    for as_type in (None, PosePath3D, PoseTrajectory3D):
        if as_type is PoseTrajectory3D and not timed:
            continue
        b = pb.df_to_trajectory(df, as_type)
        want_timed = timed and as_type is not PosePath3D
        if isinstance(b, PoseTrajectory3D) != want_timed:
            msgs.append("df_to_trajectory(as_type=%s) returned %s" %
                        (getattr(as_type, "__name__", None),
                         type(b).__name__))
            continue
        if b.num_poses != n:
            msgs.append("DataFrame: %d poses -> %d" % (n, b.num_poses))
            continue
        msgs += diff_bits(t.positions_xyz, b.positions_xyz, "df positions")
        msgs += diff_bits(t.orientations_quat_wxyz, b.orientations_quat_wxyz,
                          "df quaternions")
        if want_timed:
            msgs += diff_bits(t.timestamps, b.timestamps, "df timestamps")
    return msgs


def run_bag(stamps, frame_id, wd):
    from rosbags.rosbag1 import Reader, Writer
    from evo.core.trajectory import PoseTrajectory3D
    from evo.tools import file_interface as fi
    n = len(stamps)
    F = alphabet()
    # coordinates within float64 range of a ROS float64 field: everything
    xyz = latin(F, n, 3, stride=13)
    quat = unit_quats(n)
    # (a trajectory read from a bag carries the frame id it was read with;
    # the export uses the frame id it is given)
    t = PoseTrajectory3D(xyz, quat, np.array(stamps),
                         meta={"frame_id": "frame_it_was_read_with"})
    p = os.path.join(wd, "b_%d.bag" % os.getpid())
    if os.path.exists(p):
        os.remove(p)
    # as evo_traj --save_as_bag does with several inputs: further
    # trajectories go into the same bag under their own topics
    others = {}
    for k, name in enumerate(("/second", "/ref")):
        m = 1 + (n + k) % 3
        others[name] = PoseTrajectory3D(
            latin(F, m, 3, stride=17 + k), unit_quats(m),
            np.array([stamps[0] + 0.5 * (j + 1) + k for j in range(m)]))
    w = Writer(p)
    w.open()
    try:
        fi.write_bag_trajectory(w, t, "/traj", frame_id)
        for name, o in others.items():
            fi.write_bag_trajectory(w, o, name, frame_id + "_o")
    finally:
        w.close()
    rd = Reader(p)
    rd.open()
    try:
        b = fi.read_bag_trajectory(rd, "/traj")
        back = {}
        for name in others:
            try:
                back[name] = fi.read_bag_trajectory(rd, name)
            except Exception as e:
                back[name] = e
    finally:
        rd.close()
    os.remove(p)
    msgs = []
    if b.num_poses != n:
        return ["bag: %d poses -> %d" % (n, b.num_poses)]
    for name, o in others.items():
        bo = back[name]
        if isinstance(bo, Exception):
            msgs.append("bag: trajectory written under %s cannot be read "
                        "back (%s: %s)" % (name, type(bo).__name__, bo))
        elif bo.num_poses != o.num_poses:
            msgs.append("bag: %s has %d poses, %d were written" %
                        (name, bo.num_poses, o.num_poses))
        else:
            msgs += diff_bits(o.positions_xyz, bo.positions_xyz,
                              "bag positions of " + name)
    msgs += diff_bits(xyz, b.positions_xyz, "bag positions")
    msgs += diff_bits(quat, b.orientations_quat_wxyz, "bag quaternions")
    if b.meta.get("frame_id") != frame_id:
        msgs.append("frame id %r -> %r" % (frame_id, b.meta.get("frame_id")))
    dt = np.abs(np.array(b.timestamps) - np.array(stamps))
    # one nanosecond; where the float64 spacing exceeds 2 ns (epoch stamps:
    # 238 ns) this means the stamp must come back bit-exactly
    lim = 1.001e-9
    if np.any(dt > lim):
        i = int(np.argmax(dt - lim))
        msgs.append("bag timestamp %r came back as %r (off by %.1f ns)" %
                    (stamps[i], float(b.timestamps[i]), dt[i] * 1e9))
    return msgs


KINDS = ("str", "path", "handle")


def shard_run(arg):
    part, params, thorough = arg
    F = alphabet()
    wd = tempfile.mkdtemp(dir=os.getcwd(), prefix="c06_")
    acc = Acc()
    sizes = [1, 2, 3, len(F)] + ([10**5] if thorough else [])

    def safe(fn, *a):
        try:
            return fn(*a)
        except Exception as e:
            return ["round trip raised %s: %s" % (type(e).__name__,
                                                  str(e)[:150])]

    def rec(case, msgs, nvals):
        acc.count("evaluations")
        acc.count("transitions", 2)
        acc.count("values_round_tripped", nvals)
        acc.outcome(case["fmt"])
        if case.get("n", 0) >= 3:
            acc.count("nontrivial")
        if msgs:
            acc.violation(case["fmt"], "%s: %s" % (case, "; ".join(msgs[:2])),
                          case, {"kind": case["fmt"]})
        elif len(acc.samples) < 2:
            acc.sample(case)

    if part == "tum":
        for n in sizes:
            for mode in ("quat", "se3"):
                for wk in KINDS:
                    for rk in KINDS:
                        if n == 10**5 and (wk, rk) != ("str", "str"):
                            continue
                        case = {"fmt": "tum", "n": n, "mode": mode, "w": wk,
                                "r": rk}
                        rec(case, safe(run_tum, F, n, mode, wk, rk, wd), 8 * n)
        # every value of the alphabet as the FIRST field of the FIRST row
        # (sign, exponent notation, zero ... in the position where a reader
        # might look for a header)
        for start in range(len(F)):
            case = {"fmt": "tum", "n": 2, "mode": "quat", "w": "str",
                    "r": "str", "start": start}
            _START[0] = start
            try:
                rec(case, safe(run_tum, F, 2, "quat", "str", "str", wd), 16)
            finally:
                _START[0] = 0
    elif part == "kitti":
        for start in range(len(F)):
            case = {"fmt": "kitti", "n": 2, "mode": "se3", "w": "str",
                    "r": "str", "start": start}
            _START[0] = start
            try:
                rec(case, safe(run_kitti, F, 2, "se3", "str", "str", wd), 24)
            finally:
                _START[0] = 0
        for n in sizes:
            for mode in ("quat", "se3"):
                for wk in KINDS:
                    for rk in KINDS:
                        if n == 10**5 and (wk, rk) != ("str", "str"):
                            continue
                        case = {"fmt": "kitti", "n": n, "mode": mode, "w": wk,
                                "r": rk}
                        rec(case, safe(run_kitti, F, n, mode, wk, rk, wd), 12 * n)
    elif part == "result":
        for n in sizes[:4]:
            for with_traj in (False, True):
                for kind in ("traj", "path"):
                    for variant in range(4 if n < 10 else 40):
                        case = {"fmt": "result", "n": n, "with_traj":
                                with_traj, "kind": kind, "variant": variant}
                        rec(case, safe(run_result, F, n, with_traj, kind,
                                       wd, variant), 2 * n + 31)
    elif part == "df":
        for n in sizes[:4]:
            for mode in ("quat", "se3"):
                for timed in (True, False):
                    case = {"fmt": "df", "n": n, "mode": mode, "timed": timed}
                    rec(case, safe(run_df, F, n, mode, timed), 8 * n)
        # timestamps that look like an enumeration / whole numbers
        for stamps in ([0.0], [0.0, 1.0, 2.0], [0.0, 1.0, 2.0, 3.0, 4.0],
                       [5.0, 6.0, 7.0], [1.0], [0.0, 2.0, 4.0],
                       [1700000000.0, 1700000001.0]):
            for mode in ("quat", "se3"):
                case = {"fmt": "df", "n": len(stamps), "mode": mode,
                        "timed": True, "stamps": stamps}
                rec(case, safe(run_df, F, len(stamps), mode, True, stamps),
                    8 * len(stamps))
    elif part == "bag":
        ep = epoch_stamps()
        # epoch-sized stamps with many different sub-microsecond fractions
        # (float64 spacing at 1.7e9 is 238 ns: every representable neighbour
        # must survive, so the sec/nanosec split may not lose > 1 ns)
        dense = [1700000000.0 + 0.0066511 * k for k in range(400)]
        nxt = [float(np.nextafter(1700000001.0, 2e9))]
        for _ in range(40):
            nxt.append(float(np.nextafter(nxt[-1], 2e9)))
        sets = [ep, [0.0, 0.5, 1.000000001, 2.999999999, 3.1],
                [1700000000.0 + 0.1 * k for k in range(50)], [ep[3]], dense,
                nxt]
        for stamps in sets:
            for frame_id in ("map", "", "wörld/frame_1"):
                case = {"fmt": "bag", "n": len(stamps), "stamps": stamps,
                        "frame_id": frame_id}
                rec(case, safe(run_bag, stamps, frame_id, wd), 8 * len(stamps))
    return acc


def run(ctx):
    parts = ["tum", "kitti", "result", "df", "bag"]
    acc = pmap_acc(ctx, __name__, "shard_run",
                   [(p, None, ctx.thorough) for p in parts])
    acc.counters["states"] = acc.counters["evaluations"]
    nF = len(alphabet())
    acc.rule = (
        "float alphabet of %d values (9 mantissa patterns x 40 binary "
        "exponents -996..996 x sign, +-0.0, 1e+-300, 17-digit decimals, UTM "
        "coordinates; every value also as the first field of the first row; "
        "further: UTM "
        "coordinates, %d epoch stamps with ns fractions); Latin-square "
        "rotation puts every value into every numeric slot; {TUM, KITTI} x "
        "{str, Path, handle}^2 x {positions+quaternions, matrices} x sizes "
        "{1,2,3,%d%s}; result archives x {with, without trajectories} x "
        "{trajectory, path} x 40 value rotations (unicode info, empty and 2-D "
        "arrays); DataFrame both directions x explicit type; ROS1 bag export "
        "(ROS2 writer of the installed rosbags needs a version argument evo "
        "does not pass: excluded). Comparison bit-exact (bag stamps within 1 "
        "ns + 1 ulp). non-trivial = cases with >= 3 poses" %
        (nF, len(epoch_stamps()), nF, ", 1e5" if ctx.thorough else ""))
    return acc


def replay(part, case):
    try:
        return _replay(part, case)
    except Exception as e:
        return ["round trip raised %s: %s" % (type(e).__name__, str(e)[:150])]


def _replay(part, case):
    _START[0] = case.get("start", 0)
    try:
        return _replay2(part, case)
    finally:
        _START[0] = 0


def _replay2(part, case):
    F = alphabet()
    wd = tempfile.mkdtemp(dir=os.getcwd(), prefix="c06r_")
    if part == "tum":
        return run_tum(F, case["n"], case["mode"], case["w"], case["r"], wd)
    if part == "kitti":
        return run_kitti(F, case["n"], case["mode"], case["w"], case["r"], wd)
    if part == "result":
        return run_result(F, case["n"], case["with_traj"], case["kind"], wd,
                          case["variant"])
    if part == "df":
        return run_df(F, case["n"], case["mode"], case["timed"],
                      case.get("stamps"))
    if part == "bag":
        return run_bag(case["stamps"], case["frame_id"], wd)
    return []
