"""
Entry point of every check:  python -m mc.runner <ID> [--tier T] [--replay F]

Responsibilities (DESIGN.md section 3):
  * sandbox: fresh HOME and work directory *before* evo is imported,
    removed at exit; evo must come from /repo's working tree
  * dispatch to mc.checks.<id>.run(ctx) -> Acc
  * classify violations against known_findings.jsonl, confirm each reported
    violation by replaying it twice, write replay files, print
    VIOLATION / KNOWN-FINDING lines, write evidence/<ID>.json
  * exit 0 (held) / 1 (violation) / 2 (harness error)
"""
import argparse
import atexit
import importlib
import json
import os
import shutil
import sys
import tempfile
import time
import traceback

VERIF = os.path.dirname(os.path.dirname(os.path.abspath(__file__)))
REPO = os.environ.get("EVO_VERIF_REPO", "/repo")


class HarnessError(Exception):
    """The harness (not evo) is broken or met something it does not model."""


class Ctx(object):
    def __init__(self, prop, tier, seed, jobs, workdir):
        self.prop = prop
        self.tier = tier
        self.seed = seed
        self.jobs = jobs
        self.workdir = workdir
        self.thorough = tier == "thorough"

    def pick(self, quick, thorough):
        return thorough if self.thorough else quick


def _sandbox():
    root = tempfile.mkdtemp(prefix="evoverif_")
    home = os.path.join(root, "home")
    work = os.path.join(root, "work")
    os.mkdir(home)
    os.mkdir(work)
    os.environ["HOME"] = home
    os.environ["MPLBACKEND"] = "Agg"
    os.environ["MPLCONFIGDIR"] = os.path.join(root, "mpl")
    os.environ["EVO_VERIF"] = "1"
    os.chdir(work)
    pid = os.getpid()

    def _cleanup():
        if os.getpid() == pid:
            os.chdir("/")
            shutil.rmtree(root, ignore_errors=True)

    atexit.register(_cleanup)
    return root, work


def _import_evo():
    if REPO not in sys.path:
        sys.path.insert(0, REPO)
    import evo
    evo_file = os.path.realpath(evo.__file__)
    if not evo_file.startswith(os.path.realpath(REPO) + os.sep):
        raise HarnessError("evo imported from %s, expected %s" %
                           (evo_file, REPO))
    # silence evo's logging: checks capture what they need explicitly
    import logging
    logging.getLogger("evo").setLevel(logging.CRITICAL)
    # import the library once in the parent so that forked workers share it
    import evo.core.trajectory, evo.core.metrics, evo.core.sync  # noqa
    import evo.core.result, evo.core.filters, evo.core.geometry  # noqa
    import contextlib, io
    with contextlib.redirect_stdout(io.StringIO()):
        import evo.tools.settings  # noqa  (prints "Initialized new ...")
    import evo.tools.file_interface  # noqa
    return evo


def load_known():
    path = os.path.join(VERIF, "known_findings.jsonl")
    known = []
    if os.path.exists(path):
        with open(path) as f:
            for line in f:
                line = line.strip()
                if line and not line.startswith("#"):
                    known.append(json.loads(line))
    return known


def match_known(known, prop, violation):
    cls = violation.get("cls", {})
    for k in known:
        if k.get("kind") != "known" or k.get("property") != prop:
            continue
        m = k.get("match", {})
        if m and all(cls.get(key) == val for key, val in m.items()):
            return k
    return None


def _jsonable(o):
    import numpy as np
    if isinstance(o, dict):
        return {str(k): _jsonable(v) for k, v in o.items()}
    if isinstance(o, (list, tuple)):
        return [_jsonable(v) for v in o]
    if isinstance(o, np.ndarray):
        return _jsonable(o.tolist())
    if isinstance(o, (np.floating, )):
        return float(o)
    if isinstance(o, (np.integer, )):
        return int(o)
    if isinstance(o, (np.bool_, )):
        return bool(o)
    if isinstance(o, float):
        if o != o or o in (float("inf"), float("-inf")):
            return repr(o)
        return o
    if isinstance(o, (str, int, bool)) or o is None:
        return o
    if isinstance(o, bytes):
        return o.hex()
    return repr(o)


def write_replay(prop, violation):
    import hashlib
    body = json.dumps(
        _jsonable({
            "property": prop,
            "part": violation.get("part"),
            "cls": violation.get("cls", {}),
            "msg": violation.get("msg"),
            "case": violation.get("case"),
            "shard": violation.get("shard"),
        }), indent=1, sort_keys=True)
    digest = hashlib.sha1(body.encode()).hexdigest()[:12]
    d = os.path.join(VERIF, "replays")
    os.makedirs(d, exist_ok=True)
    path = os.path.join(d, "%s-%s.json" % (prop, digest))
    with open(path, "w") as f:
        f.write(body + "\n")
    return path


def do_replay(mod, path):
    """Re-execute one recorded case without the explorer.
    Returns the list of violation messages it produces."""
    with open(path) as f:
        rec = json.load(f)
    if rec.get("part") == "crash":
        return _replay_crash(rec, path)
    if not hasattr(mod, "replay"):
        raise HarnessError("check has no replay()")
    out = list(mod.replay(rec.get("part"), rec.get("case")) or [])
    if out or not rec.get("shard") or os.environ.get("EVO_VERIF_NO_SHARD"):
        return out
    # The single case does not fail on its own.  If the code under test keeps
    # state between calls (module-level caches, defaults evaluated once) the
    # failure depends on what the process did before: re-run the whole shard
    # that produced it in a fresh process; deterministic order dependence
    # reproduces there, harness nondeterminism does not.
    import subprocess
    env = dict(os.environ, EVO_VERIF_NO_SHARD="1")
    r = subprocess.run([sys.executable, "-m", "mc.runner", rec["property"],
                        "--replay-shard", path], env=env, cwd=VERIF,
                       capture_output=True, text=True)
    msgs = [l[len("SHARD-VIOLATION "):] for l in r.stdout.splitlines()
            if l.startswith("SHARD-VIOLATION ")]
    return ["(reproduces only after the preceding cases of its shard - the "
            "code under test keeps state between calls) " + m
            for m in msgs]


def _replay_crash(rec, path):
    """an uncaught exception of the code under test: re-run the shard that
    raised it (or, if it was raised in the main process, the whole check) in
    a fresh process and expect the same exception type again"""
    import subprocess
    env = dict(os.environ, EVO_VERIF_NO_SHARD="1", EVO_VERIF_CRASH_REPLAY="1")
    if rec.get("shard"):
        cmd = [sys.executable, "-m", "mc.runner", rec["property"],
               "--replay-shard", path]
        mark = "SHARD-VIOLATION "
    else:
        cmd = [sys.executable, "-m", "mc.runner", rec["property"], "--tier",
               (rec.get("case") or {}).get("tier", "quick"), "--no-evidence"]
        mark = "CRASH-VIOLATION "
    r = subprocess.run(cmd, env=env, cwd=VERIF, capture_output=True,
                       text=True)
    want = (rec.get("cls") or {}).get("type")
    return [l[len(mark):] for l in r.stdout.splitlines()
            if l.startswith(mark) and (("raised %s:" % want) in l or
                                       want == "ObjectInvariantBroken")]


def _report_crash(prop, tier, info, shard):
    """uncaught exception from the code under test -> VIOLATION"""
    v = {"part": "crash", "msg": info["msg"],
         "cls": {"kind": "uncaught-exception", "type": info["type"],
                 "where": info["where"]},
         "case": {"tier": tier, "traceback": info["traceback"]},
         "shard": shard}
    if os.environ.get("EVO_VERIF_CRASH_REPLAY"):
        print("CRASH-VIOLATION " + info["msg"].replace("\n", " "))
        return 1
    path = write_replay(prop, v)
    for _ in range(2):
        if not _replay_crash(json.load(open(path)), path):
            print(info["traceback"])
            raise HarnessError("crash of the code under test did not "
                               "reproduce in a fresh process: %s" % path)
    print("  [crash] " + info["msg"])
    print("VIOLATION property=%s replay=%s" % (prop, path))
    return 1


def main(argv=None):
    ap = argparse.ArgumentParser()
    ap.add_argument("prop")
    ap.add_argument("--tier", default=os.environ.get("VERIF_TIER", "quick"),
                    choices=["quick", "thorough"])
    ap.add_argument("--replay", default=None)
    ap.add_argument("--replay-shard", default=None)
    ap.add_argument("--jobs", type=int,
                    default=int(os.environ.get("VERIF_JOBS", "0")))
    ap.add_argument("--no-evidence", action="store_true")
    args = ap.parse_args(argv)
    prop = args.prop.upper()
    seed = int(os.environ.get("VERIF_SEED", "0") or 0)
    jobs = args.jobs or min(16, os.cpu_count() or 1)
    t0 = time.time()

    if args.replay:
        args.replay = os.path.abspath(
            args.replay if os.path.isabs(args.replay) else os.path.join(
                VERIF, args.replay))
    try:
        root, work = _sandbox()
        _import_evo()
        mod = importlib.import_module("mc.checks.%s" % prop.lower())
        ctx = Ctx(prop, args.tier, seed, jobs, work)

        if args.replay_shard:
            from mc.engine.core import rerun_shard
            with open(args.replay_shard) as f:
                rec = json.load(f)
            try:
                msgs = rerun_shard(rec["shard"], rec.get("part"),
                                   rec.get("cls"))
            except Exception as e:
                from mc.engine.core import classify_exception
                info = classify_exception(e)
                if info is None:
                    raise
                msgs = [info["msg"]] if rec.get("part") == "crash" and \
                    info["type"] == (rec.get("cls") or {}).get("type") else []
            for m in msgs[:3]:
                print("SHARD-VIOLATION " + m.replace("\n", " "))
            return 0
        if args.replay:
            msgs = do_replay(mod, args.replay)
            if msgs:
                for m in msgs[:10]:
                    print("  " + m)
                print("VIOLATION property=%s replay=%s" % (prop, args.replay))
                return 1
            print("replay of %s: property holds" % args.replay)
            return 0

        acc = mod.run(ctx)
        known = load_known()
        n_new = 0
        n_known = 0
        reported = []
        known_lines = {}
        for count, examples in acc.violation_classes():
            k = match_known(known, prop, examples[0])
            if k is not None:
                n_known += count
                known_lines.setdefault(k["id"], (k, count))
                continue
            n_new += count
            if len(reported) < 8:
                reported.append((count, examples[0]))
        for kid, (k, count) in sorted(known_lines.items()):
            print("KNOWN-FINDING: property=%s %s (%d occurrences): %s" %
                  (prop, kid, count, k.get("what", "")))
        rc = 0
        for count, v in reported:
            path = write_replay(prop, v)
            ok = True
            for _ in range(2):
                msgs = do_replay(mod, path)
                if not msgs:
                    ok = False
            if not ok:
                raise HarnessError(
                    "violation did not reproduce on replay (nondeterministic "
                    "harness?): %s\n%s" % (path, v.get("msg")))
            print("  [%s] (%d occurrences) %s" % (v.get("part"), count,
                                                 v.get("msg")))
            print("VIOLATION property=%s replay=%s" % (prop, path))
            rc = 1
        if n_new and not reported:
            raise HarnessError("violations counted but none recorded")
        extra = 0
        wall = time.time() - t0
        if not args.no_evidence:
            ev = acc.evidence(prop, args.tier, seed, wall,
                              violations=n_new, known=n_known)
            os.makedirs(os.path.join(VERIF, "evidence"), exist_ok=True)
            tmp = os.path.join(VERIF, "evidence", ".%s.json.tmp" % prop)
            with open(tmp, "w") as f:
                json.dump(_jsonable(ev), f, indent=1, sort_keys=True)
                f.write("\n")
            os.replace(tmp, os.path.join(VERIF, "evidence", "%s.json" % prop))
        cov = acc.summary()
        print("%s tier=%s seed=%d %s violations=%d known=%d%s wall=%.1fs" %
              (prop, args.tier, seed, cov, n_new, n_known,
               (" (+%d not listed)" % extra) if extra > 0 else "", wall))
        return rc
    except HarnessError as e:
        print("HARNESS-ERROR property=%s: %s" % (prop, e))
        return 2
    except Exception as e:
        from mc.engine.core import EvoCrash, classify_exception
        try:
            if isinstance(e, EvoCrash):
                return _report_crash(prop, args.tier, e.info, e.shard)
            info = None if (args.replay or args.replay_shard) else \
                classify_exception(e)
            if info is not None:
                return _report_crash(prop, args.tier, info, None)
        except HarnessError as e2:
            print("HARNESS-ERROR property=%s: %s" % (prop, e2))
            return 2
        traceback.print_exc()
        print("HARNESS-ERROR property=%s: unexpected exception" % prop)
        return 2


if __name__ == "__main__":
    sys.stdout.flush()
    rc = main()
    sys.stdout.flush()
    sys.exit(rc)
