"""
E3 (part 2): virtual processes and the exhaustive crash / interleaving
explorer.

A virtual process is a thread executing real evo code against the VFS; it owns
the baton only while the scheduler lets it execute exactly one file-system
primitive.  A schedule is a list of actions

    ("step", i)        execute the pending primitive of process i and run it
                       up to its next primitive (or its end)
    ("kill", i)        kill process i before its pending primitive
    ("tear", i, k)     the pending primitive of i is a raw write: only its
                       first k bytes reach the disk, then i dies

States are reached by *replaying* a schedule from the initial file system on
fresh threads (threads cannot be copied).  The canonical state is
(file system, per process: status + observation history + pending primitive).
"""
import threading

from mc.engine import vfs
from mc.engine.core import Acc, pmap, shard
from mc.runner import HarnessError


class Killed(BaseException):
    pass


class VProc(object):
    def __init__(self, idx, pid, body, sched):
        self.idx = idx
        self.pid = pid
        self.body = body
        self.sched = sched
        self.sem = threading.Semaphore(0)
        self.status = "new"  # new ready done failed killed
        self.pending = None
        self.obs = []
        self.result = None
        self.dead = False
        self.was_killed = False
        self._kill = False
        self._tear = None
        self.thread = threading.Thread(target=self._run, daemon=True)

    # called from the process thread ---------------------------------------
    def _run(self):
        vfs.set_current(self)
        self.sem.acquire()
        try:
            if self._kill:
                self.was_killed = True
                raise Killed()
            r = self.body(self)
            if self.was_killed:
                # the kill struck inside a destructor (e.g. the flush of an
                # un-closed file at refcount zero), where Python swallows
                # exceptions: the code ran on as a ghost without any effect
                self.status = "killed"
            else:
                self.result = ("done", r)
                self.status = "done"
        except Killed:
            self.status = "killed"
        except BaseException as e:  # noqa
            if self.was_killed:
                self.status = "killed"
            else:
                self.result = ("failed", type(e).__name__, str(e)[:200])
                self.status = "failed"
        finally:
            self.dead = True
            self.pending = None
            vfs.set_current(None)
            self.sched.sem.release()

    def point(self, desc):
        """scheduling + crash point in front of a primitive"""
        self.pending = desc
        self.status = "ready"
        self.sched.sem.release()
        self.sem.acquire()
        self.pending = None
        if self._kill:
            self.die()
        if self._tear is not None:
            k = self._tear
            self._tear = None
            if desc[0] != "write":
                raise HarnessError("tear on a non-write primitive")
            return k
        return None

    def die(self):
        self.dead = True
        self.was_killed = True
        raise Killed()

    def observe(self, what):
        self.obs.append(what)


class Execution(object):
    """one replay of a schedule"""
    def __init__(self, fs, bodies, patcher):
        self.sem = threading.Semaphore(0)
        self.fs = fs
        self.patcher = patcher
        patcher.fs = fs
        # (a body may ask for a pid of its own, e.g. to model the reuse of
        # the pid of a process that was killed earlier)
        self.procs = [VProc(i, getattr(b, "vpid", 1000 + i), b, self)
                      for i, b in enumerate(bodies)]
        self.nkilled = 0
        # bring every process to its first primitive (pure code before it)
        for p in self.procs:
            p.thread.start()
            self._resume(p)

    def _resume(self, p):
        p.sem.release()
        if not self.sem.acquire(timeout=60):
            raise HarnessError("virtual process %d did not reach a "
                               "scheduling point" % p.idx)

    def enabled(self):
        return [p.idx for p in self.procs if p.status == "ready"]

    def apply(self, action):
        kind, i = action[0], action[1]
        p = self.procs[i]
        if p.status != "ready":
            raise HarnessError("schedule diverged: process %d is %s" %
                               (i, p.status))
        if kind == "step":
            pass
        elif kind == "kill":
            p._kill = True
            self.nkilled += 1
        elif kind == "tear":
            if not p.pending or p.pending[0] != "write":
                raise HarnessError("schedule diverged: no pending write")
            p._tear = action[2]
            self.nkilled += 1
        else:
            raise HarnessError("unknown action %r" % (action, ))
        self._resume(p)

    def key(self):
        return (self.fs.key(), tuple(
            (p.status, tuple(p.obs), p.pending, p.result)
            for p in self.procs))

    def finish(self):
        """let every still-blocked thread unwind (end of a replay)"""
        for p in self.procs:
            if p.status == "ready":
                p._kill = True
                self._resume(p)
        for p in self.procs:
            p.thread.join(timeout=10)


def replay(spec, schedule, patcher):
    """spec: (initial files, dirs, [body...]) -> Execution after schedule"""
    files, dirs, bodies = spec
    fs = vfs.VFS(files, dirs)
    ex = Execution(fs, bodies, patcher)
    for a in schedule:
        ex.apply(a)
    return ex


def blocked(ex, i, late):
    """late processes model "a process that starts afterwards": they may only
    move after a kill happened or after every other process has finished"""
    return i in late and ex.nkilled == 0 and any(
        j not in late for j in ex.enabled())


def successors(ex, max_kills, tear_points, late):
    """enabled actions in the state of execution ex.
    late: set of process indices that start afterwards (see blocked())"""
    acts = []
    for i in ex.enabled():
        if blocked(ex, i, late):
            continue
        acts.append(("step", i))
        if ex.nkilled < max_kills and i not in late:
            acts.append(("kill", i))
            p = ex.procs[i]
            if p.pending and p.pending[0] == "write":
                L = p.pending[2]
                for k in tear_points(L):
                    if 0 < k < L:
                        acts.append(("tear", i, k))
    return acts


# ---------------------------------------------------------------------------
# generic explorer (level-synchronous BFS with central de-duplication)

_SPECS = {}


def _get_spec(factory, name):
    import importlib
    modname, fname = factory.rsplit(".", 1)
    return getattr(importlib.import_module(modname), fname)(name)


def expand(arg):
    """worker: for each (schedule, key) in the frontier, replay it, evaluate
    the invariant, and compute all successor states by further replays"""
    factory, name, frontier, max_kills, tear_mode, pbound = arg
    sp = _get_spec(factory, name)
    patcher = vfs.Patcher()
    patcher.install()
    acc = Acc()
    out = []
    try:
        tear_points = sp["tear_points"][tear_mode]
        for sched, key, used in frontier:
            ex = replay(sp["spec"], sched, patcher)
            try:
                if key is not None and ex.key() != key:
                    raise HarnessError("replay of %r diverged" % (sched, ))
                acts = successors(ex, max_kills, tear_points, sp["late"])
                # iterative context bounding: switching away from a process
                # that could still run costs one preemption
                last = sched[-1][1] if sched else None
                still = last is not None and last in ex.enabled()
            finally:
                ex.finish()
            for a in acts:
                used2 = used + (1 if still and a[1] != last else 0)
                if pbound is not None and used2 > pbound:
                    acc.count("pruned_by_preemption_bound")
                    continue
                s2 = list(sched) + [a]
                ex2 = replay(sp["spec"], s2, patcher)
                try:
                    acc.count("transitions")
                    acc.outcome(a[0])
                    ex2.late = sp["late"]
                    msgs = sp["invariant"](ex2)
                    k2 = ex2.key()
                    terminal = not ex2.enabled() or all(
                        blocked(ex2, i, sp["late"]) for i in ex2.enabled())
                    if terminal:
                        acc.count("terminal_executions")
                        msgs = msgs + sp["final"](ex2)
                        acc.outcome("terminal:" + ",".join(
                            p.status for p in ex2.procs))
                finally:
                    ex2.finish()
                if msgs:
                    acc.violation(
                        "schedule", "%s after %s: %s" %
                        (name, fmt(s2), "; ".join(msgs[:2])),
                        {"scenario": name, "schedule": [list(x) for x in s2]},
                        sp["classify"](msgs))
                    continue
                out.append((s2, k2, used2))
    finally:
        patcher.uninstall()
    return out, acc


def fmt(schedule):
    return " ".join("%s%d%s" % (a[0][0], a[1], (":%d" % a[2])
                                if len(a) > 2 else "") for a in schedule)


def explore(ctx, factory, name, max_kills=0, tear_mode="quick",
            max_states=None, preemption_bound=None):
    """preemption_bound=None: all interleavings (state-hash pruned);
    preemption_bound=k: all schedules with at most k preemptions (a state is
    then (file system + observations, last running process, preemptions
    used))"""
    sp = _get_spec(factory, name)
    acc = Acc()
    patcher = vfs.Patcher()
    patcher.install()
    try:
        ex = replay(sp["spec"], [], patcher)
        try:
            k0 = ex.key()
            msgs = sp["invariant"](ex)
        finally:
            ex.finish()
    finally:
        patcher.uninstall()
    if msgs:
        acc.violation("schedule", "%s initially: %s" % (name, msgs[0]),
                      {"scenario": name, "schedule": []}, sp["classify"](msgs))
    pb = preemption_bound
    seen = {(k0, None, 0): []}
    frontier = [([], k0, 0)]
    depth = 0
    while frontier:
        depth += 1
        nshards = max(1, min(len(frontier), ctx.jobs * 3))
        results = pmap(ctx, __name__, "expand",
                       [(factory, name, part, max_kills, tear_mode, pb)
                        for part in shard(frontier, nshards)])
        new = []
        for out, a in results:
            acc.merge(a)
            new.extend(out)
        new.sort(key=lambda sk: [tuple(x) for x in sk[0]])
        frontier = []
        for s2, k2, used2 in new:
            dk = (k2, None, 0) if pb is None else (k2, s2[-1][1], used2)
            if dk in seen:
                continue
            seen[dk] = s2
            frontier.append((s2, k2, used2))
        if max_states is not None and len(seen) > max_states and frontier:
            acc.cap_hit("%s: state cap %d hit at depth %d" %
                        (name, max_states, depth))
            break
    acc.counters["states"] = len(seen)
    acc.notes["depth:" + name] = depth
    return acc


def replay_check(factory, name, schedule):
    """re-execute one schedule; returns violation messages"""
    sp = _get_spec(factory, name)
    patcher = vfs.Patcher()
    patcher.install()
    try:
        sched = [tuple(a) for a in schedule]
        for n in range(len(sched) + 1):
            ex = replay(sp["spec"], sched[:n], patcher)
            try:
                ex.late = sp["late"]
                msgs = sp["invariant"](ex)
                if n == len(sched):
                    terminal = not ex.enabled() or all(
                        blocked(ex, i, sp["late"]) for i in ex.enabled())
                    if terminal:
                        msgs = msgs + sp["final"](ex)
            finally:
                ex.finish()
            if msgs:
                return msgs
        return []
    finally:
        patcher.uninstall()
