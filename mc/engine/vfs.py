"""
E3 (part 1): in-memory file system + substitution of the file-system
primitives used by evo's settings code.

Only calls made (a) from a virtual-process thread and (b) on a path under the
virtual root are served by the VFS; everything else goes to the real
functions.  Each served primitive first passes through the scheduling hook of
the calling virtual process (a scheduling point and a crash point) and is then
executed atomically.

Files have inode semantics: an open handle keeps its inode when the directory
entry is replaced (os.replace) or unlinked, as on POSIX.
"""
import builtins
import errno
import io
import os
import pathlib
import stat as stat_mod
import threading

VROOT = "/evo_vroot"
VFD_BASE = 1000000

from mc.runner import HarnessError  # noqa: E402


class Inode(object):
    __slots__ = ("data", )

    def __init__(self, data=b""):
        self.data = bytearray(data)


class VFS(object):
    def __init__(self, files=None, dirs=None):
        self.files = {}  # path -> Inode
        self.dirs = set([VROOT])
        for d in (dirs or []):
            self.dirs.add(d)
        for p, content in (files or {}).items():
            self.files[p] = Inode(content)

    def key(self):
        return (tuple(sorted((p, bytes(i.data)) for p, i in self.files.items())),
                tuple(sorted(self.dirs)))

    def dump(self):
        return {p: bytes(i.data).decode("utf-8", "replace")
                for p, i in sorted(self.files.items())}


_local = threading.local()


def current():
    """the virtual process running in this thread (or None)"""
    return getattr(_local, "proc", None)


def set_current(proc):
    _local.proc = proc


def _vpath(p):
    """-> normalised string if p is under the virtual root, else None"""
    if isinstance(p, int):
        return None
    try:
        s = os.fspath(p)
    except TypeError:
        return None
    if isinstance(s, bytes):
        s = s.decode()
    if s == VROOT or s.startswith(VROOT + "/"):
        return os.path.normpath(s)
    return None


class _StatResult(object):
    def __init__(self, mode, size):
        self.st_mode = mode
        self.st_size = size
        self.st_ino = 1
        self.st_dev = 1
        self.st_nlink = 1
        self.st_uid = self.st_gid = 0
        self.st_mtime = self.st_atime = self.st_ctime = 0.0


class VRaw(io.RawIOBase):
    """raw file object on an inode; wrapped by the *real* io.Buffered* /
    TextIOWrapper so that buffering behaves exactly as in production"""
    def __init__(self, proc, path, inode, readable, writable, append=False,
                 fd=None):
        super(VRaw, self).__init__()
        self._proc = proc
        self._path = path
        self._inode = inode
        self._r = readable
        self._w = writable
        self._pos = len(inode.data) if append else 0
        self._fd = fd
        self.name = path
        self.mode = "rb+" if (readable and writable) else (
            "wb" if writable else "rb")

    def readable(self):
        return self._r

    def writable(self):
        return self._w

    def seekable(self):
        return True

    def fileno(self):
        # a fake descriptor, only understood by the substituted os.fsync
        if self._fd is None:
            # deterministic per virtual process (n-th descriptor asked for)
            n = getattr(self._proc, "fd_counter", 0) + 1
            self._proc.fd_counter = n
            self._fd = VFD_BASE + n
        return self._fd

    def isatty(self):
        return False

    def seek(self, offset, whence=0):
        if whence == 0:
            self._pos = offset
        elif whence == 1:
            self._pos += offset
        else:
            self._pos = len(self._inode.data) + offset
        return self._pos

    def tell(self):
        return self._pos

    def readinto(self, b):
        proc = self._proc
        if proc.dead:
            return 0
        proc.point(("read", self._path))
        data = bytes(self._inode.data[self._pos:self._pos + len(b)])
        b[:len(data)] = data
        self._pos += len(data)
        proc.observe(("read", self._path, len(data), hash(data)))
        return len(data)

    def write(self, b):
        proc = self._proc
        data = bytes(b)
        if proc.dead:
            return len(data)  # unwinding after a kill: nothing reaches disk
        torn = proc.point(("write", self._path, len(data)))
        if torn is not None:
            # torn write: only a prefix reaches the disk, then the process dies
            part = data[:torn]
            self._apply(part)
            proc.die()
        self._apply(data)
        proc.observe(("write", self._path, len(data)))
        return len(data)

    def _apply(self, data):
        buf = self._inode.data
        if self._pos > len(buf):
            buf.extend(b"\0" * (self._pos - len(buf)))
        buf[self._pos:self._pos + len(data)] = data
        self._pos += len(data)

    def truncate(self, size=None):
        proc = self._proc
        if size is None:
            size = self._pos
        if proc.dead:
            return size
        proc.point(("truncate", self._path, size))
        del self._inode.data[size:]
        proc.observe(("truncate", self._path, size))
        return size


class Patcher(object):
    """installs / removes the dispatching substitutes"""
    def __init__(self):
        self.orig = {}
        self.fs = None
        self.fds = {}

    # --- helpers -----------------------------------------------------------
    def _served(self, path):
        proc = current()
        if proc is None:
            return None, None
        vp = _vpath(path)
        if vp is None:
            return None, None
        return proc, vp

    # --- substitutes -------------------------------------------------------
    def install(self):
        o = self.orig
        o["open"] = builtins.open
        o["io_open"] = io.open
        o["stat"] = os.stat
        o["lstat"] = os.lstat
        o["mkdir"] = os.mkdir
        o["replace"] = os.replace
        o["rename"] = os.rename
        o["unlink"] = os.unlink
        o["remove"] = os.remove
        o["access"] = os.access
        o["getpid"] = os.getpid
        o["getppid"] = os.getppid
        import time as _time
        o["sleep"], o["time"], o["monotonic"] = (_time.sleep, _time.time,
                                                 _time.monotonic)
        o["os_open"] = os.open
        o["os_close"] = os.close
        import _io
        import tempfile
        o["_io_open"] = _io.open
        o["candidate_names"] = tempfile._get_candidate_names
        o["fsync"] = os.fsync
        o["fdatasync"] = os.fdatasync
        o["home"] = pathlib.Path.__dict__["home"]
        o["listdir"] = os.listdir
        o["scandir"] = os.scandir
        o["rmdir"] = os.rmdir
        o["makedirs"] = os.makedirs
        P = self

        def v_open(file, mode="r", buffering=-1, encoding=None, errors=None,
                   newline=None, closefd=True, opener=None):
            if isinstance(file, int) and file >= VFD_BASE and \
                    file in P.fds:
                proc, vp, inode = P.fds[file]
                return P._wrap(VRaw(proc, vp, inode, "r" in mode or "+" in
                                    mode, "w" in mode or "+" in mode or "a"
                                    in mode, fd=file), "b" in mode, buffering,
                               encoding, errors, newline)
            proc, vp = P._served(file)
            if proc is None:
                return o["open"](file, mode, buffering, encoding, errors,
                                 newline, closefd, opener)
            if opener is not None:
                # e.g. tempfile.NamedTemporaryFile: the opener creates the
                # file (through the substituted os.open) and returns its fd
                fd = opener(file, os.O_RDWR)
                return v_open(fd, mode, buffering, encoding, errors, newline)
            return P._open(proc, vp, mode, buffering, encoding, errors,
                           newline)

        def v_os_open(path, flags, mode=0o777, *a, **kw):
            proc, vp = P._served(path)
            if proc is None:
                return o["os_open"](path, flags, mode, *a, **kw)
            if proc.dead:
                raise FileNotFoundError(errno.ENOENT, "dead", vp)
            proc.point(("os_open", vp, flags & (os.O_CREAT | os.O_EXCL |
                                                os.O_TRUNC)))
            fs = P.fs
            if vp in fs.dirs:
                raise IsADirectoryError(errno.EISDIR, "Is a directory", vp)
            if vp in fs.files:
                if flags & os.O_CREAT and flags & os.O_EXCL:
                    proc.observe(("os_open", vp, "EEXIST"))
                    raise FileExistsError(errno.EEXIST, "File exists", vp)
                if flags & os.O_TRUNC:
                    del fs.files[vp].data[:]
            else:
                if not flags & os.O_CREAT:
                    proc.observe(("os_open", vp, "ENOENT"))
                    raise FileNotFoundError(errno.ENOENT, "No such file", vp)
                if os.path.dirname(vp) not in fs.dirs:
                    raise FileNotFoundError(errno.ENOENT, "No such directory",
                                            vp)
                fs.files[vp] = Inode()
            n = getattr(proc, "fd_counter", 0) + 1
            proc.fd_counter = n
            fd = VFD_BASE + proc.pid * 1000 + n
            P.fds[fd] = (proc, vp, fs.files[vp])
            proc.observe(("os_open", vp, "ok"))
            return fd

        def v_os_close(fd):
            if isinstance(fd, int) and fd >= VFD_BASE:
                P.fds.pop(fd, None)
                return
            return o["os_close"](fd)

        def v_candidate_names():
            proc = current()
            if proc is None:
                return o["candidate_names"]()
            # deterministic per virtual process (the real sequence is random)
            def gen():
                k = getattr(proc, "tmp_counter", 0)
                while True:
                    k += 1
                    proc.tmp_counter = k
                    yield "vtmp%d_%d" % (proc.pid, k)
            return gen()

        def v_stat(path, *a, **kw):
            proc, vp = P._served(path)
            if proc is None:
                return o["stat"](path, *a, **kw)
            if proc.dead:
                raise FileNotFoundError(errno.ENOENT, "dead", vp)
            proc.point(("stat", vp))
            fs = P.fs
            if vp in fs.dirs:
                proc.observe(("stat", vp, "dir"))
                return _StatResult(stat_mod.S_IFDIR | 0o755, 0)
            if vp in fs.files:
                proc.observe(("stat", vp, "file"))
                return _StatResult(stat_mod.S_IFREG | 0o644,
                                   len(fs.files[vp].data))
            proc.observe(("stat", vp, "absent"))
            raise FileNotFoundError(errno.ENOENT, "No such file or directory",
                                    vp)

        def v_lstat(path, *a, **kw):
            proc, vp = P._served(path)
            if proc is None:
                return o["lstat"](path, *a, **kw)
            return v_stat(path)

        def v_mkdir(path, mode=0o777, *a, **kw):
            proc, vp = P._served(path)
            if proc is None:
                return o["mkdir"](path, mode, *a, **kw)
            if proc.dead:
                return
            proc.point(("mkdir", vp))
            fs = P.fs
            if vp in fs.dirs or vp in fs.files:
                proc.observe(("mkdir", vp, "EEXIST"))
                raise FileExistsError(errno.EEXIST, "File exists", vp)
            if os.path.dirname(vp) not in fs.dirs:
                proc.observe(("mkdir", vp, "ENOENT"))
                raise FileNotFoundError(errno.ENOENT, "No such directory", vp)
            fs.dirs.add(vp)
            proc.observe(("mkdir", vp, "ok"))

        def v_replace(src, dst, *a, **kw):
            proc, vs = P._served(src)
            if proc is None:
                return o["replace"](src, dst, *a, **kw)
            vd = _vpath(dst)
            if vd is None:
                raise HarnessError("replace across the virtual root")
            if proc.dead:
                return
            proc.point(("replace", vs, vd))
            fs = P.fs
            if vs not in fs.files:
                proc.observe(("replace", vs, vd, "ENOENT"))
                raise FileNotFoundError(errno.ENOENT, "No such file", vs)
            fs.files[vd] = fs.files.pop(vs)
            proc.observe(("replace", vs, vd, "ok"))

        def v_unlink(path, *a, **kw):
            proc, vp = P._served(path)
            if proc is None:
                return o["unlink"](path, *a, **kw)
            if proc.dead:
                return
            proc.point(("unlink", vp))
            fs = P.fs
            if vp not in fs.files:
                proc.observe(("unlink", vp, "ENOENT"))
                raise FileNotFoundError(errno.ENOENT, "No such file", vp)
            del fs.files[vp]
            proc.observe(("unlink", vp, "ok"))

        def v_access(path, mode, *a, **kw):
            proc, vp = P._served(path)
            if proc is None:
                return o["access"](path, mode, *a, **kw)
            if proc.dead:
                return False
            proc.point(("access", vp))
            ok = vp in P.fs.files or vp in P.fs.dirs
            proc.observe(("access", vp, ok))
            return ok

        def v_getpid():
            proc = current()
            if proc is None:
                return o["getpid"]()
            return proc.pid

        # waiting is made visible: a sleeping virtual process yields to the
        # scheduler (one scheduling point) and its own virtual clock advances
        # by the requested time; time.time()/monotonic() read that clock
        def v_sleep(secs):
            proc = current()
            if proc is None:
                return o["sleep"](secs)
            if proc.dead:
                return None
            proc.point(("sleep", ))
            # (a sleeping process may be resumed arbitrarily late: every
            # sleep takes at least one second of virtual time here, so that
            # polling loops with a timeout end after a few iterations -
            # one admissible schedule among many, stated in the evidence)
            proc.vclock = getattr(proc, "vclock", 0.0) + max(1.0, float(secs))
            proc.observe(("sleep", ))
            return None

        def v_time():
            proc = current()
            if proc is None:
                return o["time"]()
            return 1700000000.0 + getattr(proc, "vclock", 0.0)

        def v_monotonic():
            proc = current()
            if proc is None:
                return o["monotonic"]()
            return 1000.0 + getattr(proc, "vclock", 0.0)

        def v_getppid():
            proc = current()
            if proc is None:
                return o["getppid"]()
            return 999  # all virtual processes are children of one parent

        def v_fsync(fd):
            proc = current()
            if proc is None or not isinstance(fd, int) or fd < VFD_BASE:
                return o["fsync"](fd)
            if proc.dead:
                return
            # completed raw writes already persist in this crash model
            # (process kill, no power loss): fsync is a no-op scheduling
            # point; note that it does NOT flush Python's user-space buffer
            proc.point(("fsync", fd - VFD_BASE))
            proc.observe(("fsync", ))

        def v_home(cls):
            proc = current()
            if proc is None:
                return o["home"].__func__(cls)
            return cls(VROOT + "/home")

        class VDirEntry(object):
            def __init__(self, directory, name, is_dir):
                self.name = name
                self.path = directory + "/" + name
                self._dir = is_dir

            def is_dir(self, follow_symlinks=True):
                return self._dir

            def is_file(self, follow_symlinks=True):
                return not self._dir

            def is_symlink(self):
                return False

            def __fspath__(self):
                return self.path

        class VScan(object):
            def __init__(self, entries):
                self._it = iter(entries)

            def __iter__(self):
                return self

            def __next__(self):
                return next(self._it)

            def __enter__(self):
                return self

            def __exit__(self, *a):
                return False

            def close(self):
                pass

        def _entries(vp):
            fs = P.fs
            pre = vp + "/"
            names = sorted({q[len(pre):] for q in list(fs.files) + list(
                fs.dirs) if q.startswith(pre) and "/" not in q[len(pre):]
                and q != vp})
            return [(n, (pre + n) in fs.dirs) for n in names]

        def v_listdir(path="."):
            proc, vp = P._served(path)
            if proc is None:
                return o["listdir"](path)
            if proc.dead:
                return []
            proc.point(("listdir", vp))
            if vp not in P.fs.dirs:
                proc.observe(("listdir", vp, "ENOENT"))
                raise FileNotFoundError(errno.ENOENT, "No such directory", vp)
            ents = _entries(vp)
            proc.observe(("listdir", vp, tuple(n for n, _ in ents)))
            return [n for n, _ in ents]

        def v_scandir(path="."):
            proc, vp = P._served(path)
            if proc is None:
                return o["scandir"](path)
            if proc.dead:
                return VScan([])
            proc.point(("scandir", vp))
            if vp not in P.fs.dirs:
                proc.observe(("scandir", vp, "ENOENT"))
                raise FileNotFoundError(errno.ENOENT, "No such directory", vp)
            ents = _entries(vp)
            proc.observe(("scandir", vp, tuple(n for n, _ in ents)))
            return VScan([VDirEntry(vp, n, d) for n, d in ents])

        def unsupported(name):
            def f(path=".", *a, **kw):
                proc, vp = P._served(path)
                if proc is None:
                    return o[name](path, *a, **kw)
                raise HarnessError("VFS primitive %s(%s) is not modelled" %
                                   (name, vp))
            return f

        builtins.open = v_open
        io.open = v_open
        _io.open = v_open
        os.open = v_os_open
        os.close = v_os_close
        tempfile._get_candidate_names = v_candidate_names
        os.stat = v_stat
        os.lstat = v_lstat
        os.mkdir = v_mkdir
        os.replace = v_replace
        os.rename = v_replace
        os.unlink = v_unlink
        os.remove = v_unlink
        os.access = v_access
        os.getpid = v_getpid
        os.getppid = v_getppid
        import time as _time
        _time.sleep, _time.time, _time.monotonic = v_sleep, v_time, v_monotonic
        os.fsync = v_fsync
        os.fdatasync = v_fsync
        pathlib.Path.home = classmethod(v_home)
        os.listdir = v_listdir
        os.scandir = v_scandir
        for name in ("rmdir", "makedirs"):
            setattr(os, name, unsupported(name))

    def uninstall(self):
        o = self.orig
        import _io
        import tempfile
        builtins.open = o["open"]
        io.open = o["io_open"]
        _io.open = o["_io_open"]
        os.close = o["os_close"]
        tempfile._get_candidate_names = o["candidate_names"]
        os.stat = o["stat"]
        os.lstat = o["lstat"]
        os.mkdir = o["mkdir"]
        os.replace = o["replace"]
        os.rename = o["rename"]
        os.unlink = o["unlink"]
        os.remove = o["remove"]
        os.access = o["access"]
        os.getpid = o["getpid"]
        os.getppid = o["getppid"]
        import time as _time
        _time.sleep, _time.time, _time.monotonic = (o["sleep"], o["time"],
                                                    o["monotonic"])
        os.open = o["os_open"]
        os.fsync = o["fsync"]
        os.fdatasync = o["fdatasync"]
        pathlib.Path.home = o["home"]
        for name in ("listdir", "scandir", "rmdir", "makedirs"):
            setattr(os, name, o[name])

    def _open(self, proc, vp, mode, buffering, encoding, errors, newline):
        fs = self.fs
        binary = "b" in mode
        m = mode.replace("b", "").replace("t", "")
        if proc.dead:
            # unwinding code of a killed process: hand out a detached file
            raw = VRaw(proc, vp, Inode(), True, True)
        elif m in ("w", "w+", "x"):
            proc.point(("open_w", vp))
            if os.path.dirname(vp) not in fs.dirs:
                proc.observe(("open_w", vp, "ENOENT"))
                raise FileNotFoundError(errno.ENOENT, "No such directory", vp)
            if vp in fs.dirs:
                raise IsADirectoryError(errno.EISDIR, "Is a directory", vp)
            if m == "x" and vp in fs.files:
                proc.observe(("open_x", vp, "EEXIST"))
                raise FileExistsError(errno.EEXIST, "File exists", vp)
            if vp in fs.files:
                del fs.files[vp].data[:]  # O_TRUNC on the existing inode
            else:
                fs.files[vp] = Inode()
            proc.observe(("open_w", vp, "ok"))
            raw = VRaw(proc, vp, fs.files[vp], "+" in m, True)
        elif m in ("r", "r+"):
            proc.point(("open_r", vp))
            if vp not in fs.files:
                proc.observe(("open_r", vp, "ENOENT"))
                raise FileNotFoundError(errno.ENOENT,
                                        "No such file or directory", vp)
            proc.observe(("open_r", vp, "ok"))
            raw = VRaw(proc, vp, fs.files[vp], True, "+" in m)
        elif m in ("a", "a+"):
            proc.point(("open_a", vp))
            if vp not in fs.files:
                fs.files[vp] = Inode()
            proc.observe(("open_a", vp, "ok"))
            raw = VRaw(proc, vp, fs.files[vp], "+" in m, True, append=True)
        else:
            raise HarnessError("open mode %r is not modelled" % mode)
        return self._wrap(raw, binary, buffering, encoding, errors, newline)

    def _wrap(self, raw, binary, buffering, encoding, errors, newline):
        if buffering == 0:
            if not binary:
                raise ValueError("can't have unbuffered text I/O")
            return raw
        if raw.readable() and raw.writable():
            buf = io.BufferedRandom(raw)
        elif raw.writable():
            buf = io.BufferedWriter(raw)
        else:
            buf = io.BufferedReader(raw)
        if binary:
            return buf
        return io.TextIOWrapper(buf, encoding=encoding or "utf-8",
                                errors=errors, newline=newline)
