"""
E4: in-process driver for the evo command line tools.

run_cli("ape", argv, answers=[...]) uses the *real* parser, the real
entry_points.merge_config and the real main_*.run(args), exactly as
entry_points.launch does, but
  * input() is replaced by a scripted stub that records every prompt,
  * stdout is captured,
  * the global SETTINGS container, the "evo" logger and matplotlib figures are
    restored after every run (merge_config / configure_logging mutate them).
"""
import builtins
import importlib
import io
import logging
import sys


class CliResult(object):
    def __init__(self):
        self.exc = None  # exception instance raised by run() / parser
        self.exit_code = None  # SystemExit code
        self.prompts = []
        self.stdout = ""
        self.args = None

    @property
    def ok(self):
        return self.exc is None and self.exit_code in (None, 0)

    def outcome(self):
        if self.exc is not None:
            return "exc:" + type(self.exc).__name__
        if self.exit_code not in (None, 0):
            return "exit:%s" % self.exit_code
        return "ok"


def _reset_logging():
    lg = logging.getLogger("evo")
    for h in list(lg.handlers):
        lg.removeHandler(h)
        try:
            h.close()
        except Exception:
            pass
    lg.setLevel(logging.CRITICAL)


def parse(tool, argv):
    parser_module = importlib.import_module("evo.main_%s_parser" % tool)
    return parser_module.parser().parse_args(list(argv))


# optional observer of every scripted question: f(prompt, answer)
PROMPT_HOOK = None


def run_cli(tool, argv, answers=None, keep_plots=False):
    """Run `evo_<tool> argv...` in process.  answers: list of strings fed to
    input(); when exhausted, the last answer is repeated ('n' if empty)."""
    from evo import entry_points
    from evo.tools.settings import SETTINGS
    res = CliResult()
    answers = list(answers or [])
    saved_settings = dict(SETTINGS)
    old_input = builtins.input
    old_stdout, old_stderr = sys.stdout, sys.stderr
    old_argv = sys.argv

    def fake_input(prompt=""):
        res.prompts.append(str(prompt))
        ans = "n"
        if answers:
            ans = answers.pop(0) if len(answers) > 1 else answers[0]
        if PROMPT_HOOK is not None:
            PROMPT_HOOK(str(prompt), ans)
        if ans.startswith("<no answer"):
            raise EOFError("EOF when reading a line")
        return ans

    buf = io.StringIO()
    builtins.input = fake_input
    sys.stdout = buf
    sys.stderr = buf
    sys.argv = ["evo_" + tool] + list(argv)
    try:
        try:
            args = parse(tool, argv)
            if hasattr(args, "config"):
                args = entry_points.merge_config(args)
            res.args = args
            main_module = importlib.import_module("evo.main_%s" % tool)
            main_module.run(args)
        except SystemExit as e:
            res.exit_code = e.code if e.code is not None else 0
        except BaseException as e:  # noqa
            if isinstance(e, KeyboardInterrupt):
                raise
            res.exc = e
    finally:
        builtins.input = old_input
        sys.stdout, sys.stderr = old_stdout, old_stderr
        sys.argv = old_argv
        res.stdout = buf.getvalue()
        _reset_logging()
        # restore the settings container bit by bit (it is a locked dict)
        for k in list(SETTINGS.keys()):
            if k not in saved_settings:
                dict.__delitem__(SETTINGS, k)
        for k, v in saved_settings.items():
            dict.__setitem__(SETTINGS, k, v)
        if not keep_plots and "matplotlib.pyplot" in sys.modules:
            sys.modules["matplotlib.pyplot"].close("all")
    return res


def is_evo_refusal(res):
    """the run ended with one of evo's own exceptions (what the real entry
    point turns into an error message + exit 1)"""
    from evo import EvoException
    return res.exc is not None and isinstance(res.exc, EvoException)
