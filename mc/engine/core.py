"""
E1 core: accumulator of measured coverage + deterministic parallel map.

Every check produces an Acc.  Counters are *measured* by the code that
executes the cases; nothing is a constant.
"""
import collections
import hashlib
import multiprocessing
import os
import sys

MAX_PER_CLASS = 4
MAX_SAMPLES = 6


class Acc(object):
    def __init__(self):
        self.counters = collections.Counter()
        self.outcomes = collections.Counter()
        self.distinct = {}  # name -> set of small hashes
        self.vlist = {}
        self.vcount = collections.Counter()
        self.samples = []
        self.notes = {}  # free-form, last writer wins
        self.bounds = {}
        self.rule = ""
        self.exhaustive = True
        self.assumptions = []

    # ---- recording ----
    def count(self, name, n=1):
        self.counters[name] += n

    def outcome(self, label, n=1):
        self.outcomes[label] += n

    def seen(self, name, key):
        """register a distinct key (any hashable / bytes / str)"""
        s = self.distinct.setdefault(name, set())
        if isinstance(key, (bytes, bytearray)):
            h = hashlib.blake2b(bytes(key), digest_size=8).digest()
        elif isinstance(key, str):
            h = hashlib.blake2b(key.encode(), digest_size=8).digest()
        else:
            h = hashlib.blake2b(repr(key).encode(), digest_size=8).digest()
        n0 = len(s)
        s.add(h)
        return len(s) != n0

    def violation(self, part, msg, case, cls=None):
        """record a violation; at most MAX_PER_CLASS examples are kept per
        (part, class) so that a frequent class (e.g. a known finding) can
        never crowd out a different one; every occurrence is counted"""
        self.counters["violations_total"] += 1
        cls = cls or {}
        key = part + "|" + repr(sorted(cls.items()))
        self.vcount[key] += 1
        lst = self.vlist.setdefault(key, [])
        if len(lst) < MAX_PER_CLASS:
            lst.append({"part": part, "msg": msg, "case": case, "cls": cls})

    @property
    def violations(self):
        out = []
        for key in sorted(self.vlist):
            out.extend(self.vlist[key])
        return out

    def violation_classes(self):
        """[(count, [examples])] per (part, class)"""
        return [(self.vcount[k], self.vlist[k]) for k in sorted(self.vlist)]

    def sample(self, s):
        if len(self.samples) < MAX_SAMPLES:
            self.samples.append(s)

    def cap_hit(self, what):
        self.exhaustive = False
        self.notes.setdefault("caps_hit", []).append(what)

    # ---- merging ----
    def merge(self, other):
        self.counters.update(other.counters)
        self.outcomes.update(other.outcomes)
        for k, s in other.distinct.items():
            self.distinct.setdefault(k, set()).update(s)
        self.vcount.update(other.vcount)
        for k, lst in other.vlist.items():
            mine = self.vlist.setdefault(k, [])
            mine.extend(lst[:MAX_PER_CLASS - len(mine)])
        for s in other.samples:
            self.sample(s)
        for k, v in other.notes.items():
            if k == "caps_hit":
                self.notes.setdefault(k, []).extend(v)
            else:
                self.notes[k] = v
        self.bounds.update(other.bounds)
        self.exhaustive = self.exhaustive and other.exhaustive
        for a in other.assumptions:
            if a not in self.assumptions:
                self.assumptions.append(a)
        if other.rule and not self.rule:
            self.rule = other.rule
        return self

    # ---- reporting ----
    def n(self, name):
        if name in self.distinct:
            return len(self.distinct[name])
        return self.counters.get(name, 0)

    def summary(self):
        c = self.counters
        return "states=%d transitions=%d evaluations=%d nontrivial=%d outcomes=%d" % (
            self._states(), c.get("transitions", 0), c.get("evaluations", 0),
            self._nontrivial(), len(self.outcomes))

    def _states(self):
        if "states" in self.distinct:
            return len(self.distinct["states"])
        return self.counters.get("states", 0)

    def _nontrivial(self):
        if "nontrivial" in self.distinct:
            return len(self.distinct["nontrivial"])
        return self.counters.get("nontrivial", 0)

    def evidence(self, prop, tier, seed, wall, violations=0, known=0):
        c = self.counters
        transitions = c.get("transitions", 0)
        coverage = {
            "states": self._states(),
            "transitions": transitions,
            "traces_validated_against_impl": c.get(
                "traces_validated_against_impl", transitions),
            "evaluations": c.get("evaluations", 0),
            "distinct_nontrivial": self._nontrivial(),
            "rule": self.rule,
            "samples": self.samples if self.samples else ["(none recorded)"],
            "exhaustive": bool(self.exhaustive),
            "bounds": self.bounds,
            "distinct_outcomes": len(self.outcomes),
            "outcomes": dict(self.outcomes.most_common(40)),
            "counters": {
                k: v
                for k, v in sorted(c.items()) if k not in (
                    "transitions", "evaluations", "states", "nontrivial")
            },
            "distinct_counts": {
                k: len(v)
                for k, v in sorted(self.distinct.items())
            },
            "known_finding_hits": known,
        }
        coverage.update({k: v for k, v in self.notes.items()})
        return {
            "property_id": prop,
            "tier": tier,
            "seed": seed,
            "level": "model_checking",
            "coverage": coverage,
            "assumptions": self.assumptions,
            "wall_s": round(wall, 3),
            "violations": violations,
        }


# ---------------------------------------------------------------------------
# deterministic parallel map

class EvoCrash(Exception):
    """The code under test raised an exception that no check anticipated on
    an input for which the property demands a result (or a documented
    refusal that the check does catch).  Reported as a violation."""

    def __init__(self, info, shard=None):
        Exception.__init__(self, info.get("msg"))
        self.info = info
        self.shard = shard


_OS_LAYER = ("mc/engine/vfs.py", "mc/engine/vsched.py")


def classify_exception(exc):
    """Decide whether an uncaught exception comes from the code under test:
    walk the traceback from the innermost frame outwards, skipping library
    frames (numpy, stdlib, ...) and the frames of the virtual OS layer (they
    stand in for the operating system); the first remaining frame is either
    evo's (-> dict describing the crash) or the harness' (-> None)."""
    import traceback
    if type(exc).__name__ == "HarnessError":
        return None
    if type(exc).__name__ == "ObjectInvariantBroken":
        return {"type": "ObjectInvariantBroken", "where": "object",
                "msg": "malformed object produced by the code under test: "
                       "%s" % exc,
                "traceback": "".join(traceback.format_exception(
                    type(exc), exc, exc.__traceback__))[-3000:]}
    repo = os.path.realpath(os.environ.get("EVO_VERIF_REPO") or "/repo")
    verif = os.path.realpath(os.path.join(os.path.dirname(__file__), "..",
                                          ".."))
    frames = traceback.extract_tb(exc.__traceback__)
    for fr in reversed(frames):
        fn = os.path.realpath(fr.filename)
        if fn.startswith(repo + os.sep):
            rel = fn[len(repo) + 1:]
            text = "%s: %s" % (type(exc).__name__, str(exc)[:200])
            return {
                "type": type(exc).__name__,
                "where": "%s:%s" % (rel, fr.name),
                "msg": "evo raised %s at %s line %d (%s) - no result and not "
                       "one of the refusals the check anticipates" %
                       (text, rel, fr.lineno, fr.name),
                "traceback": "".join(traceback.format_exception(
                    type(exc), exc, exc.__traceback__))[-3000:],
            }
        if fn.startswith(verif + os.sep):
            if fn[len(verif) + 1:] in _OS_LAYER:
                continue
            return None
    return None


def _call(packed):
    modname, funcname, arg = packed
    import importlib
    mod = importlib.import_module(modname)
    try:
        return getattr(mod, funcname)(arg)
    except Exception as e:
        import traceback
        info = classify_exception(e)
        if info is not None:
            return ("__evo_crash__", info, repr(arg)[:500])
        return ("__error__", traceback.format_exc(), repr(arg)[:500])


_POOL = None


def pool(jobs):
    global _POOL
    if _POOL is None:
        ctx = multiprocessing.get_context("fork")
        _POOL = ctx.Pool(jobs)
        import atexit
        atexit.register(shutdown)
    return _POOL


def shutdown():
    global _POOL
    if _POOL is not None:
        try:
            _POOL.terminate()
            _POOL.join()
        except Exception:
            pass
        _POOL = None


def pmap(ctx, modname, funcname, args, chunksize=1, crash_ok=False):
    """Run modname.funcname(arg) for every arg on the worker pool; results are
    returned in argument order (deterministic, independent of scheduling).
    An exception raised by the code under test (see classify_exception) ends
    the run as EvoCrash unless crash_ok (then the marker tuple is returned in
    place of the shard's result)."""
    from mc.runner import HarnessError
    args = list(args)
    packed = [(modname, funcname, a) for a in args]
    if ctx.jobs <= 1 or len(args) <= 1:
        results = [_call(p) for p in packed]
    else:
        results = pool(ctx.jobs).map(_call, packed, chunksize)
    for a, r in zip(args, results):
        if isinstance(r, tuple) and len(r) == 3 and r[0] == "__error__":
            raise HarnessError("worker failed on %s:\n%s" % (r[2], r[1]))
    for a, r in zip(args, results):
        if crash_ok:
            break
        if isinstance(r, tuple) and len(r) == 3 and r[0] == "__evo_crash__":
            import base64
            import pickle
            raise EvoCrash(r[1], {
                "mod": modname, "fn": funcname,
                "arg": base64.b64encode(pickle.dumps(a)).decode()})
    return results


def pmap_acc(ctx, modname, funcname, args, chunksize=1):
    """pmap + merge; every violation is tagged with the shard that produced it
    (module, function, pickled argument) so that a violation which depends on
    what the same process did *before* (module-level state in the code under
    test) can be re-executed as a whole shard in a fresh process"""
    import base64
    import pickle
    args = list(args)
    acc = Acc()
    for a, r in zip(args, pmap(ctx, modname, funcname, args, chunksize,
                               crash_ok=True)):
        tag = {"mod": modname, "fn": funcname,
               "arg": base64.b64encode(pickle.dumps(a)).decode()}
        if isinstance(r, tuple) and len(r) == 3 and r[0] == "__evo_crash__":
            # the shard died in the code under test: one violation; whatever
            # else the shard would have covered is not counted
            info = r[1]
            r = Acc()
            r.count("shards_ended_by_uncaught_exception")
            r.violation("crash", info["msg"],
                        {"traceback": info["traceback"]},
                        {"kind": "uncaught-exception", "type": info["type"],
                         "where": info["where"]})
        if r.vlist:
            for lst in r.vlist.values():
                for v in lst:
                    v.setdefault("shard", tag)
        acc.merge(r)
    return acc


def rerun_shard(tag, part, cls):
    """run one recorded shard again in THIS (fresh) process; returns the
    messages of the violations of the same (part, class)"""
    import base64
    import importlib
    import pickle
    mod = importlib.import_module(tag["mod"])
    arg = pickle.loads(base64.b64decode(tag["arg"]))
    r = getattr(mod, tag["fn"])(arg)
    key = part + "|" + repr(sorted((cls or {}).items()))
    return [v["msg"] for v in r.vlist.get(key, [])]


def shard(seq, n):
    """deterministic round-robin sharding of an index range / list"""
    seq = list(seq)
    return [seq[i::n] for i in range(n) if seq[i::n]]
