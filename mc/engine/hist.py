"""
E2: explicit-state breadth-first search over operation histories of live
objects.

A state is identified by the history that reaches it: (initial index, tuple of
operation indices).  Live objects are rebuilt by replaying the history on a
fresh initial object (replay must reproduce the canonical key recorded when
the state was discovered - any divergence is a harness error).  From a rebuilt
state every enabled operation is applied to a deep copy; the check module's
step() applies the operation to the implementation object *and* to the
lock-step reference model and returns the violation messages.

The check module passes the dotted name of a "system" factory; the system
object provides:
    n_inits                     number of initial states
    initial(i)     -> state
    enabled(state) -> iterable of op indices
    step(state, op, check=True) -> (state', msgs, label)   (may mutate state)
    key(state)     -> bytes      canonical form (property-relevant part)
    describe(op)   -> str
"""
import copy
import importlib

from mc.engine.core import Acc, pmap, shard

_SYSTEMS = {}


def _system(factory):
    if factory not in _SYSTEMS:
        modname, fname = factory.rsplit(".", 1)
        _SYSTEMS[factory] = getattr(importlib.import_module(modname), fname)()
    return _SYSTEMS[factory]


def rebuild(sysm, hist):
    init, ops = hist
    st = sysm.initial(init)
    for op in ops:
        st, _, _ = sysm.step(st, op, check=False)
    return st


def expand(arg):
    """worker: expand a list of (hist, key) frontier states"""
    from mc.runner import HarnessError
    factory, frontier = arg
    sysm = _system(factory)
    acc = Acc()
    out = []
    for hist, key in frontier:
        st = rebuild(sysm, hist)
        k0 = sysm.key(st)
        if key is not None and k0 != key:
            raise HarnessError(
                "replay of history %r diverged from the recorded state" %
                (describe(sysm, hist), ))
        for op in sysm.enabled(st):
            # (deepcopy keeps the sharing of identical array objects but not
            # of distinct views on one buffer; systems whose states contain
            # such views ask for a fresh replay per transition instead)
            s2 = rebuild(sysm, hist) if getattr(sysm, "replay_per_op", False) \
                else copy.deepcopy(st)
            s2, msgs, label = sysm.step(s2, op, check=True)
            acc.count("transitions")
            acc.outcome(label)
            nh = (hist[0], tuple(hist[1]) + (op, ))
            if msgs:
                acc.violation(
                    "history", "after %s: %s" %
                    (describe(sysm, nh), "; ".join(msgs[:3])),
                    {"init": nh[0], "ops": list(nh[1]),
                     "desc": describe(sysm, nh), "factory": factory},
                    sysm.classify(nh, msgs)
                    if hasattr(sysm, "classify") else {})
                # do not explore beyond a violating state
                continue
            out.append((nh, sysm.key(s2)))
            if hasattr(sysm, "note"):
                sysm.note(acc, s2, label)
    return out, acc


def describe(sysm, hist):
    return "init%d: %s" % (hist[0], " ; ".join(
        sysm.describe(o) for o in hist[1]) or "(initial)")


def bfs(ctx, factory, max_depth, max_states=None):
    """level-synchronous BFS; returns Acc with states / transitions / depth"""
    sysm = _system(factory)
    acc = Acc()
    seen = {}
    frontier = []
    for i in range(sysm.n_inits):
        st = sysm.initial(i)
        msgs = sysm.check_state(st) if hasattr(sysm, "check_state") else []
        if msgs:
            acc.violation("history", "initial state %d: %s" %
                          (i, "; ".join(msgs[:3])),
                          {"init": i, "ops": [], "factory": factory})
        k = sysm.key(st)
        if k not in seen:
            seen[k] = ((i, ()), 0)
            frontier.append(((i, ()), k))
    depth = 0
    levels = [len(frontier)]
    while frontier and depth < max_depth:
        depth += 1
        nshards = max(1, min(len(frontier), ctx.jobs * 4))
        parts = shard(frontier, nshards)
        results = pmap(ctx, __name__, "expand", [(factory, p) for p in parts])
        # merge deterministically: shards are round-robin slices, restore the
        # original frontier order so that the first-found history of every
        # state does not depend on the number of workers
        new = []
        for out, a in results:
            acc.merge(a)
            new.extend(out)
        new.sort(key=lambda hk: (hk[0][0], hk[0][1]))
        frontier = []
        for nh, k in new:
            if k in seen:
                continue
            seen[k] = (nh, depth)
            frontier.append((nh, k))
        levels.append(len(frontier))
        if max_states is not None and len(seen) > max_states and frontier \
                and depth < max_depth:
            acc.cap_hit("state cap %d reached at depth %d" %
                        (max_states, depth))
            break
    acc.counters["states"] = len(seen)
    acc.bounds["max_depth_completed"] = depth
    acc.bounds["states_per_level"] = levels
    acc.notes["frontier_left_unexpanded"] = len(frontier)
    return acc


def replay_history(factory, init, ops):
    """re-execute one history with all checks on; returns messages"""
    sysm = _system(factory)
    st = sysm.initial(init)
    if hasattr(sysm, "check_state"):
        msgs = sysm.check_state(st)
        if msgs:
            return msgs
    for op in ops:
        st, msgs, _ = sysm.step(st, op, check=True)
        if msgs:
            return msgs
    return []
