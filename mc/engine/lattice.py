"""
Option lattices: full products and deterministic pairwise-covering subsets.
"""
import itertools


def product(dims):
    """dims: list of (name, values) -> list of dicts"""
    names = [n for n, _ in dims]
    return [dict(zip(names, combo))
            for combo in itertools.product(*[v for _, v in dims])]


def pairwise(dims, seed=0, valid=None):
    """Greedy deterministic covering array of strength 2: every pair of values
    of two different dimensions that occurs in some valid point occurs in the
    returned list.  valid(point_dict) -> bool filters impossible points."""
    names = [n for n, _ in dims]
    vals = [list(v) for _, v in dims]
    k = len(dims)
    uncovered = set()
    for a in range(k):
        for b in range(a + 1, k):
            for i in range(len(vals[a])):
                for j in range(len(vals[b])):
                    uncovered.add((a, i, b, j))
    out = []
    rot = seed
    guard = 0
    while uncovered and guard < 100000:
        guard += 1
        # start from one uncovered pair, fill the rest greedily
        a, i, b, j = min(uncovered, key=lambda t: ((t[0] * 31 + t[1] * 17 +
                                                    t[2] * 13 + t[3] * 7 +
                                                    rot) % 1009, t))
        point = [None] * k
        point[a], point[b] = i, j
        for c in range(k):
            if point[c] is not None:
                continue
            best, best_gain = 0, -1
            for v in range(len(vals[c])):
                vv = (v + rot) % len(vals[c])
                gain = 0
                for d in range(k):
                    if point[d] is None or d == c:
                        continue
                    key = (c, vv, d, point[d]) if c < d else (d, point[d], c,
                                                               vv)
                    if key in uncovered:
                        gain += 1
                if gain > best_gain:
                    best, best_gain = vv, gain
            point[c] = best
        p = {names[c]: vals[c][point[c]] for c in range(k)}
        newly = set()
        for c in range(k):
            for d in range(c + 1, k):
                newly.add((c, point[c], d, point[d]))
        if valid is not None and not valid(p):
            # this particular completion is impossible; drop the seed pair only
            # if no valid completion exists at all (checked by brute force
            # over the other dimensions for small lattices is too costly:
            # simply mark the pair as uncoverable)
            uncovered.discard((a, i, b, j))
            rot += 1
            continue
        uncovered -= newly
        out.append(p)
        rot += 1
    return out
