"""
Helpers shared by the checks (these DO touch evo objects, through public API).
"""
import contextlib
import copy
import io
import math
import os
import sys

import numpy as np

from mc.refmodel import geom

NUM = 1e-9


def tol(scale=1.0):
    return NUM * max(1.0, float(scale))


def close(a, b, scale=1.0):
    a = np.asarray(a, dtype=float)
    b = np.asarray(b, dtype=float)
    if a.shape != b.shape:
        return False
    if a.size == 0:
        return True
    if not (np.all(np.isfinite(a)) and np.all(np.isfinite(b))):
        return bool(np.array_equal(a, b, equal_nan=False))
    return bool(np.abs(a - b).max() <= tol(scale))


def bits(a):
    return np.ascontiguousarray(np.asarray(a, dtype=np.float64)).tobytes()


def same_bits(a, b):
    a = np.asarray(a)
    b = np.asarray(b)
    return a.shape == b.shape and bits(a) == bits(b)


# --------------------------------------------------------------- trajectories
def make_traj(Rs, ps, stamps=None, mode="se3", meta=None):
    """Build a PosePath3D / PoseTrajectory3D in one of the two storage modes.
    mode 'se3': from pose matrices; 'quat': from positions + quaternions."""
    from evo.core.trajectory import PosePath3D, PoseTrajectory3D
    kw = {}
    read = mode.endswith("+read")
    mode = mode.split("+")[0]
    if mode == "se3":
        kw["poses_se3"] = [geom.pose(R, p) for R, p in zip(Rs, ps)]
    elif mode == "arr":
        # the pose matrices as one (n, 4, 4) array instead of a list
        kw["poses_se3"] = np.array([geom.pose(R, p) for R, p in zip(Rs, ps)])
    elif mode in ("quat", "quatF"):
        kw["positions_xyz"] = np.array([np.asarray(p, dtype=float) for p in ps])
        kw["orientations_quat_wxyz"] = np.array(
            [geom.rot_to_quat_wxyz(R) for R in Rs])
        if mode == "quatF":
            # column-major memory layout (np.vstack((x, y, z)).T, arrays
            # from a DataFrame): the transposed view is then C-contiguous
            kw["positions_xyz"] = np.asfortranarray(kw["positions_xyz"])
            kw["orientations_quat_wxyz"] = np.asfortranarray(
                kw["orientations_quat_wxyz"])
    else:
        raise ValueError(mode)
    if meta is not None:
        kw["meta"] = meta
    if stamps is None:
        t = PosePath3D(**kw)
    else:
        t = PoseTrajectory3D(timestamps=np.array(stamps, dtype=float), **kw)
    if read:
        # populate every cached view (the state after e.g. a plot or check())
        t.poses_se3, t.positions_xyz, t.orientations_quat_wxyz
    return t


def snapshot(traj):
    """Bit-exact snapshot of everything observable of a trajectory, taken
    through a deep copy so that the observation does not populate caches of
    the object itself."""
    c = copy.deepcopy(traj)
    parts = [type(traj).__name__.encode()]
    parts.append(bits(c.positions_xyz))
    parts.append(bits(c.orientations_quat_wxyz))
    parts.append(bits(np.array(c.poses_se3)))
    if hasattr(c, "timestamps"):
        parts.append(bits(c.timestamps))
    parts.append(repr(sorted(c.meta.items())).encode() if isinstance(
        getattr(c, "meta", None), dict) else b"")
    return b"|".join(parts)


def raw_state(traj):
    """Bit-exact snapshot of the *stored* attributes only (no property access,
    no copies) - detects in-place writes to existing buffers."""
    parts = []
    for name in ("_positions_xyz", "_orientations_quat_wxyz", "timestamps"):
        if hasattr(traj, name):
            parts.append(name.encode() + bits(getattr(traj, name)))
    if hasattr(traj, "_poses_se3"):
        parts.append(b"_poses_se3" + bits(np.array(traj._poses_se3)))
    return b"|".join(parts)


class ObjectInvariantBroken(Exception):
    """an evo object is malformed in a way no check can look past (reported
    as a violation by the runner, see core.classify_exception)"""


def views(traj):
    """(R list, p array, stamps or None) read through a deep copy"""
    c = copy.deepcopy(traj)
    poses = [np.array(p) for p in c.poses_se3]
    stamps = np.array(c.timestamps) if hasattr(c, "timestamps") else None
    if stamps is not None and stamps.ndim != 1:
        raise ObjectInvariantBroken(
            "%s with %d pose(s) holds timestamps of shape %s (one timestamp "
            "per pose expected)" % (type(traj).__name__, c.num_poses,
                                    stamps.shape))
    return {
        "poses": poses,
        "xyz": np.array(c.positions_xyz),
        "quat": np.array(c.orientations_quat_wxyz),
        "stamps": stamps,
        "n": c.num_poses,
    }


@contextlib.contextmanager
def quiet():
    """capture stdout/stderr noise of evo (progress prints)"""
    old_out, old_err = sys.stdout, sys.stderr
    sys.stdout = io.StringIO()
    sys.stderr = io.StringIO()
    try:
        yield
    finally:
        sys.stdout, sys.stderr = old_out, old_err


def is_evo_exc(e):
    from evo import EvoException
    return isinstance(e, EvoException)


# ------------------------------------------------------------------ alphabets
def seed_rotations(seed, k=3):
    """k 'generic' rotations depending on VERIF_SEED; entries are exact
    rationals of small denominators (built from Pythagorean-like quaternions
    with integer components) so every seed gives an exactly reproducible
    finite alphabet."""
    rng = np.random.RandomState(1000 + int(seed))
    out = []
    while len(out) < k:
        q = rng.randint(-4, 5, size=4).astype(float)
        if np.count_nonzero(q) < 3:
            continue
        out.append(geom.quat_wxyz_to_rot(q / np.linalg.norm(q)))
    return out


def seed_positions(seed, k=2):
    rng = np.random.RandomState(2000 + int(seed))
    return [rng.randint(-640, 641, size=3) / 64.0 for _ in range(k)]


_HARD_AXES = [(1, 0, 0), (0, 1, 0), (0, 0, 1), (1, 1, 1), (1, -2, 3)]
_HARD_ANGLES = [0.0, 1e-16, 1e-12, 1e-8, 1e-3] + [
    k * math.pi / 8 for k in range(1, 8)
] + [math.pi - 1e-3, math.pi - 1e-8, math.pi - 1e-12, math.pi]


def rot_hard(seed=0, generic=3):
    out = []
    for ax in _HARD_AXES:
        for ang in _HARD_ANGLES:
            out.append(geom.rodrigues(ax, ang))
    out.extend(geom.rot24())
    out.extend(seed_rotations(seed, generic))
    return out


def pos_hard(seed=0, generic=1):
    out = [
        np.zeros(3),
        np.array([1e-3, 0, 0]),
        np.array([1.0, 2.0, 3.0]),
        np.array([5e5 + .25, 5.4e6 + .5, 100.0]),
        np.array([-1e6, 1e6, 1e-3]),
    ]
    out.extend(seed_positions(seed, generic))
    return out
